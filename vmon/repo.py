"""Import pymodbus from $VERIF_REPO (default /repo), never from anywhere else; reset the
process-wide state pymodbus keeps; anchor-line coverage through sys.monitoring."""
import logging
import os
import sys

REPO = os.path.abspath(os.environ.get('VERIF_REPO', '/repo'))
sys.dont_write_bytecode = True
if sys.path[0] != REPO:
    sys.path.insert(0, REPO)

logging.disable(logging.CRITICAL)
logging.raiseExceptions = False


class _Sink(logging.Handler):
    """formats every record (so that a broken log call shows) and throws it away"""

    def emit(self, record):
        try:
            self.format(record)
        except Exception:  # noqa
            pass


_SINK = _Sink()
DEBUG_LOGGING = [False]


def debug_logging(on):
    """environment fact: the application has switched pymodbus' loggers to DEBUG (every pymodbus example does); the library's
    behaviour must not depend on it.  Records go to a sink, nothing is printed."""
    lg = logging.getLogger('pymodbus')
    if on and not DEBUG_LOGGING[0]:
        logging.disable(logging.NOTSET)
        logging.getLogger('asyncio').setLevel(logging.CRITICAL + 1)       # (its 'Task exception was never retrieved' notes at shutdown are not ours)
        logging.getLogger().setLevel(logging.CRITICAL + 1)
        lg.setLevel(logging.DEBUG)
        lg.propagate = False
        if _SINK not in lg.handlers:
            lg.addHandler(_SINK)
    elif not on and DEBUG_LOGGING[0]:
        lg.setLevel(logging.WARNING)
        logging.disable(logging.CRITICAL)
    DEBUG_LOGGING[0] = bool(on)

import pymodbus  # noqa: E402

_origin = os.path.abspath(pymodbus.__file__)
if not _origin.startswith(REPO + os.sep):
    raise SystemExit('pymodbus imported from %s, expected under %s' % (_origin, REPO))

from pymodbus.device import ModbusControlBlock, ModbusDeviceIdentification  # noqa: E402


def reset_globals():
    mcb = ModbusControlBlock()
    mcb.ListenOnly = False
    mcb.reset()
    mcb.Delimiter = b'\r'
    mcb.Mode = 'ASCII'
    mcb.Plus.reset()
    mcb.clearEvents()
    data = ModbusDeviceIdentification._ModbusDeviceIdentification__data
    data.clear()
    data.update({i: '' for i in range(9)})


NAMES = ['VendorName', 'ProductCode', 'MajorMinorRevision', 'VendorUrl', 'ProductName', 'ModelName', 'UserApplicationName']


def set_identity(objects, order=None, via='private', pristine=True):
    """Install an identity (dict id -> str/bytes).  The shared identity dict is first put back into its import-time state (ids
    0..8 empty; there is no public way to remove an object) unless pristine=False; the objects are then configured one by one in
    the given order (default ascending) - via 'private' (straight into the dict), 'setitem' (identity[oid] = v), 'update'
    (identity.update({oid: v})), 'properties' (identity.VendorName = v ... for ids 0..6, setitem for the private range) or
    'constructor' (ModbusDeviceIdentification(info={...}))."""
    data = ModbusDeviceIdentification._ModbusDeviceIdentification__data
    if pristine:
        data.clear()
        data.update({i: '' for i in range(9)})
    ident = ModbusControlBlock().Identity
    keys = list(order if order is not None else sorted(objects))
    if via == 'constructor':
        ModbusDeviceIdentification(info={k: objects[k] for k in keys})
        return
    for k in keys:
        v = objects[k]
        if via == 'private':
            data[k] = v
        elif via == 'update':
            ident.update({k: v})
        elif via == 'properties' and k < 7:
            setattr(ident, NAMES[k], v)
        else:
            ident[k] = v


class Coverage(object):
    """Which lines of the anchored files executed (sys.monitoring LINE + DISABLE)."""
    TOOL = 3

    def __init__(self, relfiles):
        self.files = {os.path.join(REPO, f): f for f in relfiles}
        self.hit = {f: set() for f in relfiles}
        self.active = False

    def start(self):
        mon = getattr(sys, 'monitoring', None)
        if mon is None:
            return
        try:
            mon.use_tool_id(self.TOOL, 'vmon-anchor')
        except ValueError:
            return
        files, hit = self.files, self.hit

        def on_line(code, line):
            rel = files.get(code.co_filename)
            if rel is not None:
                hit[rel].add(line)
            return mon.DISABLE
        mon.register_callback(self.TOOL, mon.events.LINE, on_line)
        mon.set_events(self.TOOL, mon.events.LINE)
        self.active = True

    def stop(self):
        if self.active:
            mon = sys.monitoring
            mon.set_events(self.TOOL, 0)
            mon.register_callback(self.TOOL, mon.events.LINE, None)
            mon.free_tool_id(self.TOOL)
            self.active = False

    def report(self):
        out = {}
        for path, rel in self.files.items():
            try:
                src = open(path).read()
                total = _code_lines(compile(src, path, 'exec'))
            except Exception:
                continue
            out[rel] = '%d/%d' % (len(self.hit[rel] & total), len(total))
        return out


def _code_lines(code):
    lines = set()
    for _, _, l in code.co_lines():
        if l is not None:
            lines.add(l)
    for c in code.co_consts:
        if hasattr(c, 'co_lines'):
            lines |= _code_lines(c)
    return lines
