"""Real-socket runs of the server front-ends over loopback (thorough tiers of C09 / C12 / C17).

The in-process drivers of vmon/frontends.py replace socketserver / the asyncio loop / the
Twisted reactor by direct calls; here the real servers run (sync: serve_forever in a thread,
asyncio: its own loop in a thread, Twisted: the real reactor in a child process) and real
client sockets talk to them.  Nothing waits on wall-clock time for a verdict: a missing
answer is retried and, if a whole run is slow, reported as a watchdog (inconclusive)."""
import asyncio
import json
import os
import select
import socket
import subprocess
import sys
import threading
import time

from . import repo  # noqa: F401
import pymodbus.server.sync as sy
import pymodbus.server.async_io as aio
from .frontends import FRAMER

HOST = '127.0.0.1'


class SyncServer(object):
    def __init__(self, kind, framing, context, **opts):
        cls = sy.ModbusTcpServer if kind == 'tcp' else sy.ModbusUdpServer
        if kind == 'tcp':
            self.srv = cls(context, framer=FRAMER[framing], address=(HOST, 0), allow_reuse_address=True, **opts)
        else:
            self.srv = cls(context, framer=FRAMER[framing], address=(HOST, 0), **opts)
        self.srv.daemon_threads = True
        self.port = self.srv.server_address[1]
        self.kind = kind
        self.th = threading.Thread(target=self.srv.serve_forever, kwargs={'poll_interval': 0.02}, daemon=True)
        self.th.start()

    def stop(self):
        try:
            self.srv.shutdown()
            self.srv.server_close()
        except Exception:  # noqa
            pass
        self.th.join(2)


class AioServer(object):
    def __init__(self, framing, context, **opts):
        self.ready = threading.Event()
        self.err = None
        self.port = None
        self.loop = asyncio.new_event_loop()
        self.framing, self.context, self.opts = framing, context, opts
        self.th = threading.Thread(target=self._run, daemon=True)
        self.th.start()
        if not self.ready.wait(10) or self.err:
            raise RuntimeError('asyncio server did not start: %r' % (self.err,))

    def _run(self):
        asyncio.set_event_loop(self.loop)
        try:
            self.server = aio.ModbusTcpServer(self.context, framer=FRAMER[self.framing], address=(HOST, 0), loop=self.loop,
                                              allow_reuse_address=True, **self.opts)

            async def main():
                task = self.loop.create_task(self.server.serve_forever())
                await self.server.serving
                self.port = self.server.server.sockets[0].getsockname()[1]
                self.ready.set()
                try:
                    await task
                except asyncio.CancelledError:
                    pass
            self.main_task = self.loop.create_task(main())
            self.loop.run_until_complete(self.main_task)
        except Exception as e:  # noqa
            self.err = e
            self.ready.set()

    def stop(self):
        def _stop():
            try:
                self.server.server_close()
            except Exception:  # noqa
                pass
            for t in asyncio.all_tasks(self.loop):
                t.cancel()
        try:
            self.loop.call_soon_threadsafe(_stop)
        except Exception:  # noqa
            pass
        self.th.join(3)


TW_CHILD = r'''
import sys, os, json
sys.path.insert(0, os.environ["VERIF_REPO"]); sys.path.insert(0, os.environ["VMON_ROOT"])
import logging; logging.disable(logging.CRITICAL)
from vmon import servermodel as SM
from vmon.frontends import FRAMER
import pymodbus.server.asynchronous as tw
from twisted.internet import reactor
cfg = json.loads(sys.stdin.readline())
ctx, model, blocks = SM.build(cfg["layout"])
if cfg.get("kind") == "udp":
    proto = tw.ModbusUdpProtocol(ctx, framer=FRAMER[cfg["framing"]], ignore_missing_slaves=cfg.get("ignore_missing_slaves", False))
    port = reactor.listenUDP(0, proto, interface="127.0.0.1")
else:
    fac = tw.ModbusServerFactory(ctx, framer=FRAMER[cfg["framing"]], ignore_missing_slaves=cfg.get("ignore_missing_slaves", False))
    port = reactor.listenTCP(0, fac, interface="127.0.0.1")
sys.stdout.write("%d\n" % port.getHost().port); sys.stdout.flush()
def watch():
    import threading
    def w():
        sys.stdin.readline()
        reactor.callFromThread(reactor.stop)
    threading.Thread(target=w, daemon=True).start()
watch()
reactor.run(installSignalHandlers=False)
'''


class TwistedServer(object):
    """real reactor in a child process (a reactor cannot be restarted inside one process)"""

    def __init__(self, framing, layout, **opts):
        root = os.path.dirname(os.path.dirname(os.path.abspath(__file__)))
        env = dict(os.environ, VERIF_REPO=repo.REPO, VMON_ROOT=root, PYTHONDONTWRITEBYTECODE='1')
        self.p = subprocess.Popen([sys.executable, '-c', TW_CHILD], stdin=subprocess.PIPE, stdout=subprocess.PIPE, stderr=subprocess.DEVNULL, env=env)
        self.p.stdin.write((json.dumps(dict(opts, layout=layout, framing=framing)) + '\n').encode())
        self.p.stdin.flush()
        r, _, _ = select.select([self.p.stdout], [], [], 20)
        if not r:
            self.stop()
            raise RuntimeError('twisted child did not start')
        self.port = int(self.p.stdout.readline())

    def stop(self):
        try:
            self.p.stdin.write(b'\n')
            self.p.stdin.flush()
            self.p.wait(3)
        except Exception:  # noqa
            self.p.kill()


def tcp_exchange(port, chunks, expect_len=None, idle=0.4, total=8.0, gap=0.0):
    """send the chunks on one connection, collect everything the server writes.
    Returns (bytes, closed_by_server, timed_out)."""
    s = socket.create_connection((HOST, port), timeout=3)
    s.setsockopt(socket.IPPROTO_TCP, socket.TCP_NODELAY, 1)
    out = b''
    closed = False
    try:
        for c in chunks:
            if not c:
                continue
            try:
                s.sendall(c)
            except OSError:
                closed = True
                break
            # give the server the chance to see this chunk on its own (one recv per chunk is the common case on loopback)
            t_end = time.time() + max(gap, 0.02)
            while time.time() < t_end:
                r, _, _ = select.select([s], [], [], max(0.0, t_end - time.time()))
                if r:
                    d = s.recv(65536)
                    if not d:
                        closed = True
                        break
                    out += d
            if closed:
                break
        t0 = time.time()
        last = time.time()
        while not closed and time.time() - t0 < total:
            if expect_len is not None and len(out) >= expect_len:
                break
            r, _, _ = select.select([s], [], [], 0.05)
            if r:
                try:
                    d = s.recv(65536)
                except OSError:
                    closed = True
                    break
                if not d:
                    closed = True
                    break
                out += d
                last = time.time()
            elif expect_len is None and time.time() - last > idle:
                break
        timed_out = expect_len is not None and len(out) < expect_len and not closed
    finally:
        try:
            s.close()
        except Exception:  # noqa
            pass
    return out, closed, timed_out


def udp_exchange(port, datagrams, expect=None, wait=1.5):
    """one client socket; datagram i is sent, its answers collected (expect[i] = how many are expected, None = unknown)
    before the next one goes out.  Returns [(i, bytes)]."""
    s = socket.socket(socket.AF_INET, socket.SOCK_DGRAM)
    s.settimeout(wait)
    out = []
    try:
        for i, dg in enumerate(datagrams):
            if dg is None:
                continue
            s.sendto(dg, (HOST, port))
            want = expect[i] if expect is not None else None
            if want == 0:
                # nothing expected: a short look is enough
                s.settimeout(0.05)
            else:
                s.settimeout(wait)
            try:
                while True:
                    d, _ = s.recvfrom(65536)
                    out.append((i, d))
                    if want is not None and sum(1 for j, _ in out if j == i) >= want:
                        break
                    s.settimeout(0.05)
            except socket.timeout:
                pass
    finally:
        s.close()
    return out
