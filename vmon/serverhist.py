"""Server-side request histories shared by C09 / C10 / C12 / C17: generation of multi-unit
configurations and pipelined request histories (frames by the reference builder), the expected
reaction of a conformant server (servermodel.Model), execution through a front-end, strict
parsing of everything the front-end wrote, and the input predicates of the known regions."""
import os
from . import frontends as FE
from . import gen
from . import repo
from . import servermodel as SM
from .spec import adu as ADU
from .spec import pdu as S
from .spec.pdu import REQ, RSP

HOSTED_SETS = [[1], [0], [255], [1, 2], [0, 1, 247], [3, 17, 200], [1, 2, 3, 4, 5]]
OTHER_FCS = [7, 11, 12, 17, 20, 21, 24, 43]


def gen_layout(r, single, hosted, zero_mode):
    units = {}
    for u in ([hosted[0]] if single else hosted):
        units[u] = SM.unit_layout(r, share=False, small=True)
    return {'single': single, 'zero_mode': zero_mode, 'units': units}


def gen_request(r, layout, uniq, data_only=False):
    """one valid-by-construction request aimed at the (first) unit layout, or a non data-access request"""
    from .props.c04 import gen_history
    if data_only or r.random() < 0.8:
        return gen_history(r, layout, 1, uniq)[0]
    fc = r.choice(OTHER_FCS + [8, 8])
    if fc == 8:
        sub = r.choice([0, 1, 2, 10, 11, 12, 13, 14, 15, 16, 17, 18, 20])      # not 3 (delimiter), not 4 (listen-only)
        return gen.message(r, REQ, 8, sub, small=True) if sub != 0 else {'dir': REQ, 'fc': 8, 'sub': 0, 'data': [gen.word(r)]}
    return gen.message(r, REQ, fc, small=True)


def gen_case(r, front, framing, uniq, data_only=False, max_per_read=3, allow_foreign=True, nreq=None):
    single = r.random() < 0.4
    hosted = list(r.choice(HOSTED_SETS))
    flags = {'ignore_missing_slaves': r.random() < 0.4, 'broadcast_enable': r.random() < 0.4 and not front.startswith('tw')}
    layout = gen_layout(r, single, hosted, bool(r.getrandbits(1)))
    if r.random() < 0.15:
        # configuration through the process-wide Defaults (keywords left out) / blocks built from one caller-side list
        flags['via_defaults'] = True
        layout['via_defaults'] = True
    elif r.random() < 0.15:
        flags['defaults_opposite'] = True
        layout['defaults_opposite'] = True
    elif r.random() < 0.2:
        layout['zero_style'] = r.choice(['int', 'late'])       # zero_mode=1 / 0, or the attribute set after construction
    if not single and r.random() < 0.12:
        layout['table'] = 'defaultdict'
    if r.random() < 0.15:
        layout['share_init_lists'] = True
    defaults_unit = r.choice(hosted) if (r.random() < 0.15 and framing != 'tls') else None
    n = nreq or r.choice([1, 3, 8, 16])
    frames = []
    for i in range(n):
        m = gen_request(r, layout, uniq, data_only)
        x = r.random()
        if single:
            unit = r.choice(hosted + [r.randrange(256)])
        elif x < 0.75 or not allow_foreign:
            unit = r.choice(hosted)
        elif x < 0.9:
            unit = r.choice([u for u in (0, 1, 9, 99, 248, 255, r.randrange(256)) if u not in hosted] or [hosted[0]])
        else:
            unit = 0
        tid = r.randrange(65536)
        frames.append([unit, tid, m])
    # group into reads
    reads, i = [], 0
    k = r.choice([1, 1, 2, 3]) if max_per_read > 1 else 1
    while i < len(frames):
        kk = k if r.random() < 0.7 else r.randint(1, max_per_read)
        reads.append(frames[i:i + kk])
        i += kk
    case = {'front': front, 'framing': framing, 'layout': layout, 'flags': flags, 'reads': reads}
    if defaults_unit is not None:
        case['defaults_unit'] = defaults_unit
    return case


def cap_reads(case, limit=1024):
    """long pipelined bursts: no read longer than what the threaded handlers ask their socket for in one call (a longer burst
    reaches them cut at that size - mid-frame, which is the split-frame territory of C06)"""
    while True:
        lens = [len(b) for b in build_reads(dict(case, inserts=[]))]
        big = [i for i, n in enumerate(lens) if n > limit and len(case['reads'][i]) > 1]
        if not big:
            return case
        i = big[0]
        rd = case['reads'][i]
        case['reads'][i:i + 1] = [rd[:len(rd) // 2], rd[len(rd) // 2:]]


def add_failing(r, case, k):
    """one hosted unit's datastore raises on every access (class chosen from SM.FAIL_CLASSES)"""
    hosted = sorted(int(u) for u in case['layout']['units'])
    case['failing'] = [r.choice(hosted), SM.FAIL_CLASSES[k % len(SM.FAIL_CLASSES)]]
    return case


def add_delivery(r, case):
    """how the reads reach the front-end: datagrams from up to three different senders, and (asyncio front-ends) groups
    of reads that are queued before the handler task gets to run"""
    n = len(case['reads'])
    d = {}
    if r.random() < 0.7:
        d['peers'] = [r.randrange(3) for _ in range(n)]
    if r.random() < 0.7:
        burst, left = [], n
        while left > 0:
            k = r.choice([1, 2, 2, 3, left])
            burst.append(min(k, left))
            left -= burst[-1]
        d['burst'] = burst
    if case['front'] == 'sync-tcp' and r.random() < 0.5:
        # idle periods longer than the receive timeout of the server's sockets (the handler sees socket.timeout and must go on)
        d['timeouts'] = sorted(set(r.randrange(n + 1) for _ in range(r.randint(1, 3))))
    if case['front'].endswith('-udp') and r.random() < 0.5:
        # datagrams without payload between the requests (legal UDP; port scanners and keep-alives send them)
        d['empties'] = sorted(set(r.randrange(n + 1) for _ in range(r.randint(1, 3))))
    if case['front'] == 'sync-tcp' and case['framing'] == 'ascii' and r.random() < 0.6:
        # every read reaches the handler in 2..3 pieces (TCP segments anywhere; the ASCII framer copes with every chunking)
        d['chop'] = r.getrandbits(30) + 1
    case['delivery'] = d
    return case


def build_reads(case):
    """reference-built byte chunks; binary request frames are bumped until delimiter free"""
    from .props.c04 import make_frame
    out = []
    for rd in case['reads']:
        chunk = b''
        for fr in rd:
            unit, tid, m = fr
            m2, f = make_frame(case['framing'], unit, m, tid)
            if f is None:
                f = ADU.build(case['framing'], unit, S.encode(m), tid=tid)
            fr[2] = m2
            if case.get('pid') and case['framing'] == 'tcp':
                f = f[:2] + bytes([case['pid'] >> 8, case['pid'] & 0xFF]) + f[4:]       # MBAP protocol identifier chosen by the client
            chunk += f
        out.append(chunk)
    if case.get('tail_malformed') and out:
        out[-1] += ADU.build(case['framing'], int(next(iter(case['layout']['units']))), bytes([16, 0, 2, 0, 3, 6, 0, 1]), tid=0x7777)
    for idx, hx in sorted(case.get('inserts', []), reverse=True):
        out.insert(idx, bytes.fromhex(hx))          # raw bytes put between two reads (C17: fragments the framer rejects)
    return out


def framer_units(front, hosted, flags):
    """the unit list the front-end hands to the framer's unit filter: the sync stream handlers and the asyncio
    handlers add 0 when broadcast is enabled (the sync datagram handler too since fix ba8ed26)"""
    if flags.get('broadcast_enable') and front in ('sync-tcp', 'sync-serial', 'sync-udp', 'aio-tcp', 'aio-udp') and 0 not in hosted:
        return hosted + [0]
    return list(hosted)


LOSSY = ('rtu-one-frame-per-call', 'binary-pipelined-frame-skipped', 'foreign-unit-frame-discards-rest-of-read', 'binary-delimiter-in-body',
         'twisted-listen-only-is-permanent')


def regions(case):
    """known-finding regions by input predicate"""
    front, framing, layout, flags = case['front'], case['framing'], case['layout'], case['flags']
    out = set()
    hosted = sorted(int(u) for u in layout['units'])
    multi = not layout['single']
    units_seen_by_framer = framer_units(front, hosted, flags)
    filter_on = multi and 0 not in units_seen_by_framer and 255 not in units_seen_by_framer
    for ri, rd in enumerate(case['reads']):
        for idx, op, uid, lay in case.get('reconfig', []):
            if idx == ri and multi:
                hosted = sorted((set(hosted) - {uid}) if op == 'del' else (set(hosted) | {uid}))
                units_seen_by_framer = framer_units(front, hosted, flags)
                filter_on = 0 not in units_seen_by_framer and 255 not in units_seen_by_framer
        if len(rd) >= 2:
            if framing == 'rtu':
                out.add('rtu-one-frame-per-call')
            if framing == 'binary':
                out.add('binary-pipelined-frame-skipped')
            if filter_on and any(fr[0] not in units_seen_by_framer for fr in rd[:-1]):
                out.add('foreign-unit-frame-discards-rest-of-read')
        for unit, tid, m in rd:
            if framing == 'binary' and any(b in (0x7B, 0x7D) for b in ADU.build('binary', unit, S.encode(m))[1:-1]):
                out.add('binary-delimiter-in-body')
            if m['fc'] == 8 and len(m.get('data', [])) != 1:
                out.add('diag-request-multiword')
                if framing == 'rtu':
                    out.add('rtu-diag-fixed-size')
            if m['fc'] == 8 and m.get('sub') == 4 and front.startswith('tw'):
                out.add('twisted-listen-only-is-permanent')
    return out - set(os.environ.get('VERIF_NO_REGION', '').split(','))      # (experiments with candidate repairs)


def expectations(case, model, new_units=None):
    """per request frame, in order: dict(kind, tid, unit, fc, pdu)"""
    flags = case['flags']
    exp = []
    deaf = False
    for ri, rd in enumerate(case['reads']):
        for k, (idx, op, uid, lay) in enumerate(case.get('reconfig', [])):
            if idx == ri:
                model.reconfigure(op, uid, new_units[k])
        for unit, tid, m in rd:
            kind, val = model.react(unit, m, broadcast_enable=flags.get('broadcast_enable', False),
                                    ignore_missing=flags.get('ignore_missing_slaves', False))
            try:
                pdu = S.encode(val) if kind == 'reply' else None
            except Exception:  # noqa
                kind, pdu = 'unjudged', None           # (a store cell that no response can carry: C17 compares the front-ends only)
            e = {'kind': kind, 'unit': unit, 'tid': tid, 'fc': m['fc'], 'pdu': pdu, 'why': val if kind == 'silent' else None}
            if deaf:
                e['kind'] = 'unjudged'
            if kind == 'silent' and val == 'listen-only':
                deaf = True            # what follows a force-listen-only request is not judged (DESIGN C09)
            exp.append(e)
    return exp


def execute(case):
    """-> dict(res, model, blocks, reads, out_frames, parse_error, exp)"""
    if case.get('defaults_unit') is not None and not case.get('_du'):
        # the application set a process-wide default unit id other than 0 at start-up (explicit ids everywhere must still win)
        from pymodbus.constants import Defaults as _Defaults
        old = _Defaults.UnitId
        _Defaults.UnitId = int(case['defaults_unit'])
        try:
            return execute(dict(case, _du=True))
        finally:
            _Defaults.UnitId = old
    repo.reset_globals()
    ctx, model, blocks = SM.build(case['layout'])
    reads = build_reads(case)
    if case.get('failing'):
        fu, exc_name = case['failing']
        model.failing = {int(fu)}
    new_units = {}
    if case.get('reconfig'):
        # run-time reconfiguration of the server context between two reads (context[uid] = ..., del context[uid])
        fed = []
        for ri, chunk in enumerate(reads):
            for k, (idx, op, uid, lay) in enumerate(case['reconfig']):
                if idx == ri:
                    def ev(k=k, op=op, uid=uid, lay=lay):
                        new_units[k] = SM.reconfigure(op, uid, lay, case['layout'], ctx, blocks)
                    fed.append(ev)
            fed.append(chunk)
    else:
        fed = list(reads)
    if case.get('delivery', {}).get('timeouts') and case['front'] == 'sync-tcp':
        import socket as _socket
        for idx in sorted(case['delivery']['timeouts'], reverse=True):
            pos = [k for k, x in enumerate(fed) if isinstance(x, (bytes, bytearray))]
            fed.insert(pos[idx] if idx < len(pos) else len(fed), _socket.timeout('timed out'))
    if case.get('delivery', {}).get('empties') and case['front'].endswith('-udp'):
        for idx in sorted(case['delivery']['empties'], reverse=True):
            pos = [k for k, x in enumerate(fed) if isinstance(x, (bytes, bytearray))]
            fed.insert(pos[idx] if idx < len(pos) else len(fed), FE.EMPTY)
    if case.get('delivery', {}).get('chop') and case['front'] == 'sync-tcp':
        import random as _random
        rr = _random.Random(case['delivery']['chop'])
        chopped = []
        for x in fed:
            if isinstance(x, (bytes, bytearray)) and len(x) >= 2:
                cuts = sorted(set(rr.randrange(1, len(x)) for _ in range(rr.randint(1, 2))))
                chopped.extend(x[a:b] for a, b in zip([0] + cuts, cuts + [len(x)]))
            else:
                chopped.append(x)
        fed = chopped
    if case.get('failing'):
        SM.make_failing(blocks[int(case['failing'][0])], case['failing'][1])
    res = FE.feed(case['front'], case['framing'], ctx, fed, **dict(case['flags'], **case.get('delivery', {})))
    for k, (idx, op, uid, lay) in enumerate(case.get('reconfig', [])):
        if k not in new_units:            # the front-end stopped reading before the event: apply it anyway (keeps model and store comparable)
            new_units[k] = SM.reconfigure(op, uid, lay, case['layout'], ctx, blocks)
    framing = case['framing']
    if framing == 'tls':
        frames, err = [], None
        for chunk in res.per_read:
            if chunk:
                fs, pos, e = ADU.parse_stream('tls', RSP, chunk)
                if e is not None or len(fs) != 1:
                    err = err or 'output %s is not one response PDU' % chunk.hex()[:60]
                for f in fs:
                    f.unit = 0
                frames += fs
    elif case['front'] in FE.STREAM:
        frames, pos, err = ADU.parse_stream(framing, RSP, res.out)
        if err is None and pos != len(res.out):
            err = 'trailing partial frame (%d bytes)' % (len(res.out) - pos)
    else:
        frames, err = [], None
        for dg, addr in res.datagrams:
            fs, pos, e = ADU.parse_stream(framing, RSP, dg)
            if e is not None or pos != len(dg) or len(fs) != 1:
                err = err or 'datagram %s is not exactly one response frame' % dg.hex()[:60]
            frames += fs
            peers = case.get('delivery', {}).get('peers')
            if not peers:
                if addr != FE.PEER:
                    err = err or 'datagram sent to %r instead of the sender %r' % (addr, FE.PEER)
            elif len(fs) == 1:
                # one request per datagram, tids unique: the answer belongs to the sender of the datagram with that tid
                senders = {}
                for i, rd in enumerate(case['reads']):
                    for fr in rd:
                        senders.setdefault(fr[1], set()).add(FE.PEERS[peers[i]] if i < len(peers) else FE.PEER)
                want = senders.get(fs[0].tid)
                if want is not None and addr not in want:
                    err = err or 'answer to request tid=%s sent to %r instead of its sender %r' % (fs[0].tid, addr, sorted(want))
    # (no_model: the stores hold what the register-file model does not describe - the caller compares front-ends only)
    exp = None if case.get('no_model') else expectations(case, model, new_units)
    repo.reset_globals()
    return {'res': res, 'model': model, 'blocks': blocks, 'reads': reads, 'out_frames': frames, 'parse_error': err, 'exp': exp}


def match(framing, exp, frames):
    """walk responses against expectations in order.
    -> (problems [(kind, text)], matched count).  kinds: unsolicited, missing, wrong-content, gateway-code"""
    problems = []
    i = 0
    matched = 0
    for f in frames:
        while True:
            if i >= len(exp):
                problems.append(('unsolicited', 'response %r answers no received request (or a second time)' % (f,)))
                break
            e = exp[i]
            ids_ok = (f.unit == e['unit'] or framing == 'tls') and (framing != 'tcp' or f.tid == e['tid']) and (f.pdu[0] & 0x7F) == (e['fc'] & 0x7F)
            if e['kind'] == 'unjudged':
                if ids_ok:
                    i += 1
                    matched += 1
                    break
                i += 1
                continue
            if e['kind'] == 'silent':
                if ids_ok and not _later_match(framing, exp, i + 1, f):
                    problems.append(('answered-silent', 'response %r to a request that must not be answered (%s)' % (f, e['why'])))
                    i += 1
                    break
                i += 1
                continue
            if e['kind'] == 'gateway':
                if ids_ok and f.pdu[0] >= 0x80 and f.pdu[1] in (0x0A, 0x0B):
                    i += 1
                    matched += 1
                    break
                if ids_ok and not _later_match(framing, exp, i + 1, f):
                    problems.append(('gateway-code', 'request for a non-hosted unit answered with %s' % bytes(f.pdu).hex()))
                    i += 1
                    break
                i += 1
                continue
            # reply / reply-any: mandatory
            if ids_ok:
                if e['kind'] == 'reply' and bytes(f.pdu) != e['pdu']:
                    problems.append(('wrong-content', 'response %s, model %s' % (bytes(f.pdu).hex()[:60], e['pdu'].hex()[:60])))
                i += 1
                matched += 1
                break
            problems.append(('missing', 'no response to request tid=%s unit=%s fc=%s (next response is %r)' % (e['tid'], e['unit'], e['fc'], f)))
            i += 1
    while i < len(exp):
        e = exp[i]
        if e['kind'] in ('reply', 'reply-any'):
            problems.append(('missing', 'no response to request tid=%s unit=%s fc=%s' % (e['tid'], e['unit'], e['fc'])))
        i += 1
    return problems, matched


def _later_match(framing, exp, j, f):
    for e in exp[j:]:
        if (f.unit == e['unit'] or framing == 'tls') and (framing != 'tcp' or f.tid == e['tid']) and (f.pdu[0] & 0x7F) == (e['fc'] & 0x7F) and e['kind'] not in ('silent',):
            return True
    return False


FRONT_FRAMINGS = [('sync-tcp', 'tcp'), ('sync-tcp', 'rtu'), ('sync-tcp', 'ascii'), ('sync-tcp', 'binary'),
                  ('sync-serial', 'rtu'), ('sync-serial', 'ascii'), ('sync-serial', 'binary'), ('sync-serial', 'tcp'),
                  ('aio-tcp', 'tcp'), ('aio-tcp', 'ascii'), ('aio-tcp', 'rtu'), ('tw-tcp', 'tcp'), ('tw-tcp', 'ascii'), ('tw-tcp', 'rtu'),
                  ('sync-udp', 'tcp'), ('aio-udp', 'tcp'), ('tw-udp', 'tcp'), ('sync-udp', 'ascii'), ('aio-udp', 'rtu'),
                  ('sync-tcp', 'tls'), ('aio-tcp', 'tls')]
