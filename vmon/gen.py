"""Seeded generators of spec messages (dicts, see spec/pdu.py).  No pymodbus here."""
from .spec.pdu import REQ, RSP

W = [0, 1, 2, 0x7F, 0x80, 0xFF, 0x100, 0x7B7D, 0x7FFF, 0x8000, 0x0D0A, 0x3A3A, 0xFFFE, 0xFFFF]
DIAG_SUBS = [0, 1, 2, 3, 4, 10, 11, 12, 13, 14, 15, 16, 17, 18, 19, 20, 21]
DATA_FCS = [1, 2, 3, 4, 5, 6, 15, 16, 22, 23]
PLAIN_FCS = [1, 2, 3, 4, 5, 6, 7, 11, 12, 15, 16, 17, 20, 21, 22, 23, 24, 43]

KINDS = [(d, fc, None) for d in (REQ, RSP) for fc in PLAIN_FCS] + \
        [(d, 8, s) for d in (REQ, RSP) for s in DIAG_SUBS] + [(RSP, 'exc', None)]


def kind_name(k):
    d, fc, sub = k
    return '%s/%s%s' % (d, fc, '' if sub is None else '/%d' % sub)


def word(r):
    x = r.random()
    if x < 0.35:
        return r.choice(W)
    if x < 0.5:
        return r.randrange(256)
    return r.randrange(0x10000)


def byte(r):
    return r.choice([0, 1, 0x7B, 0x7D, 0x3A, 0x0D, 0x0A, 0xFF, 0x80]) if r.random() < 0.3 else r.randrange(256)


def length(r, lo, hi):
    """List length biased to the ends of [lo, hi]."""
    x = r.random()
    if x < 0.15:
        return lo
    if x < 0.3:
        return hi
    if x < 0.5:
        return min(hi, lo + r.randrange(0, 10))
    if x < 0.6:
        return max(lo, hi - r.randrange(0, 10))
    return r.randint(lo, hi)


def truthy(r, bits_):
    """the same bit list with ON written as various truthy integers (ModbusStatus.On = 0xFF00, 1, 2, 17 ...) and OFF as 0"""
    return [r.choice([1, 2, 4, 0x10, 17, 0xFF00]) if b else 0 for b in bits_]


def bits(r, n):
    p = r.choice([0, 1, 2, 3])
    if p == 0:
        return [False] * n
    if p == 1:
        return [True] * n
    if p == 2:
        return [bool((i + 1) % 2) for i in range(n)]
    v = r.getrandbits(n) if n else 0
    return [bool((v >> i) & 1) for i in range(n)]


def regs(r, n):
    return [word(r) for _ in range(n)]


def blob(r, n):
    return bytes(byte(r) for _ in range(n))


def message(r, d, fc, sub=None, beyond=False, small=False):
    """A spec message of kind (d, fc, sub).  beyond=True also produces list lengths above the
    spec maximum that the wire format can still represent.  small=True keeps lists short."""
    if fc == 'exc':
        return {'dir': RSP, 'fc': 0x80 | r.randrange(1, 128), 'code': r.choice([1, 2, 3, 4, 5, 6, 8, 10, 11, r.randrange(256)])}
    m = {'dir': d, 'fc': fc}
    cap = (lambda hi: min(hi, 6)) if small else (lambda hi: hi)
    if d == REQ:
        if fc in (1, 2, 3, 4):
            m['address'], m['count'] = word(r), word(r)
        elif fc == 5:
            m['address'], m['value'] = word(r), r.choice([0, 0xFF00])
        elif fc == 6:
            m['address'], m['value'] = word(r), word(r)
        elif fc == 8:
            m['sub'] = sub
            if sub == 0:
                m['data'] = regs(r, 1 if r.random() < 0.7 else length(r, 0, cap(125)))
            elif sub == 1:
                m['data'] = [r.choice([0, 0xFF00])]
            else:
                m['data'] = [word(r)]
        elif fc == 15:
            m['address'], m['bits'] = word(r), bits(r, length(r, 0, cap(2040 if beyond else 1968)))
        elif fc == 16:
            m['address'], m['registers'] = word(r), regs(r, length(r, 0, cap(127 if beyond else 123)))
        elif fc == 20:
            m['records'] = [(word(r), word(r), word(r)) for _ in range(length(r, 0, cap(35)))]
            if len(m['records']) >= 2 and r.random() < 0.3:
                # the same record group asked for twice (or all groups equal): every sub-request counts
                k = r.randrange(len(m['records']))
                for j in ([r.randrange(len(m['records']))] if r.random() < 0.7 else range(len(m['records']))):
                    m['records'][j] = m['records'][k]
        elif fc == 21:
            m['records'] = file_records(r, 251, small)
        elif fc == 22:
            m['address'], m['and_mask'], m['or_mask'] = word(r), word(r), word(r)
        elif fc == 23:
            m['read_address'], m['read_count'], m['write_address'] = word(r), word(r), word(r)
            m['registers'] = regs(r, length(r, 0, cap(122 if beyond else 121)))
        elif fc == 24:
            m['address'] = word(r)
        elif fc == 43:
            m['read_code'], m['object_id'] = r.randint(1, 4), byte(r)
    else:
        if fc in (1, 2):
            m['bits'] = bits(r, length(r, 0, cap(2040 if beyond else 2000)))
        elif fc in (3, 4, 23):
            m['registers'] = regs(r, length(r, 0, cap(127 if beyond else 125)))
        elif fc == 5:
            m['address'], m['value'] = word(r), r.choice([0, 0xFF00])
        elif fc == 6:
            m['address'], m['value'] = word(r), word(r)
        elif fc == 7:
            m['status'] = byte(r)
        elif fc == 8:
            m['sub'] = sub
            if sub == 0:
                m['data'] = regs(r, 1 if r.random() < 0.7 else length(r, 0, cap(125)))
            elif sub == 1:
                m['data'] = [r.choice([0, 0xFF00])]
            elif sub == 4:
                m['data'] = []
            else:
                m['data'] = [word(r)]
        elif fc == 11:
            m['status'], m['count'] = r.choice([0, 0xFFFF]), word(r)
        elif fc == 12:
            m['status'] = r.choice([0, 0xFFFF])
            m['event_count'], m['message_count'] = word(r), word(r)
            m['events'] = blob(r, length(r, 0, cap(245 if beyond else 64)))
        elif fc in (15, 16):
            m['address'], m['count'] = word(r), word(r)
        elif fc == 17:
            m['identifier'], m['run'] = blob(r, length(r, 0, cap(250))), r.choice([0, 0xFF])
        elif fc == 20:
            recs, left = [], 251
            for _ in range(length(r, 0, cap(20))):
                if left < 2:
                    break
                n = 2 * r.randint(0, min(10 if r.random() < 0.8 else 124, (left - 2) // 2))
                recs.append(blob(r, n))
                left -= 2 + n
            m['records'] = recs
        elif fc == 21:
            m['records'] = file_records(r, 251, small)
        elif fc == 22:
            m['address'], m['and_mask'], m['or_mask'] = word(r), word(r), word(r)
        elif fc == 24:
            m['values'] = regs(r, length(r, 0, cap(120 if beyond else 31)))
        elif fc == 43:
            m['read_code'] = r.randint(1, 4)
            m['conformity'], m['more'], m['next'] = 0x83, 0, 0
            ids = sorted(r.sample(list(range(0, 7)) + list(range(0x80, 0x100)), r.randint(0, 2 if small else 8)))
            objs, left = [], 253 - 7
            for i in ids:
                n = r.randint(0, min(left - 2, 30 if r.random() < 0.8 else 244)) if left > 2 else -1
                if n < 0:
                    break
                objs.append((i, blob(r, n)))
                left -= 2 + n
                # an object id may occur more than once (pymodbus keeps such values as a list); repeats stay adjacent,
                # and empty values occur in any position of the run
                while not small and left > 4 and r.random() < 0.12:
                    n = r.choice([0, 0, r.randint(0, min(left - 2, 6))])
                    if r.random() < 0.3 and objs[-1][0] == i and len(objs[-1][1]) and n:
                        objs[-1] = (i, b'')
                    objs.append((i, blob(r, n)))
                    left -= 2 + n
            m['objects'] = objs
    return m


def file_records(r, budget, small=False):
    recs, left = [], budget
    for _ in range(length(r, 0, 3 if small else 12)):
        if left < 7:
            break
        n = 2 * r.randint(0, min(8 if r.random() < 0.8 else 122, (left - 7) // 2))
        recs.append((word(r), word(r), blob(r, n)))
        left -= 7 + n
    return recs


def data_request(r, address_hint=None, maxq=None):
    """A request of FC 1-6,15,16,22,23 with plausible small quantities (for server histories)."""
    fc = r.choice(DATA_FCS)
    a = address_hint if address_hint is not None else r.randrange(0, 40)
    q = r.randint(1, maxq or 12)
    m = {'dir': REQ, 'fc': fc}
    if fc in (1, 2, 3, 4):
        m['address'], m['count'] = a, q
    elif fc == 5:
        m['address'], m['value'] = a, r.choice([0, 0xFF00])
    elif fc == 6:
        m['address'], m['value'] = a, word(r)
    elif fc == 15:
        m['address'], m['bits'] = a, bits(r, q)
    elif fc == 16:
        m['address'], m['registers'] = a, regs(r, q)
    elif fc == 22:
        m['address'], m['and_mask'], m['or_mask'] = a, word(r), word(r)
    elif fc == 23:
        m['read_address'], m['read_count'] = a, q
        m['write_address'], m['registers'] = r.randrange(0, 40), regs(r, r.randint(1, maxq or 12))
    return m
