"""Independent reference for the register image of typed values (C19).
Conventional layout: canonical big-endian bytes of the value, split into 16-bit words;
little word order reverses the words of a multi-register value; little byte order swaps the
two bytes inside each word.  8-bit values and strings are raw bytes; bit groups are packed
LSB-first per byte."""
import struct

INT_BITS = {'u8': 8, 'i8': 8, 'u16': 16, 'i16': 16, 'u32': 32, 'i32': 32, 'u64': 64, 'i64': 64}
FLOAT_FMT = {'f16': ('>e', 16), 'f32': ('>f', 32), 'f64': ('>d', 64)}


def value_of(kind, raw):
    """raw (JSON-able) -> the Python value handed to the builder"""
    if kind in FLOAT_FMT:
        fmt, bits = FLOAT_FMT[kind]
        return struct.unpack(fmt, raw.to_bytes(bits // 8, 'big'))[0]
    if kind == 'bits':
        return [bool(b) for b in raw]
    if kind == 'str':
        return bytes(raw)
    if kind == 'text':
        return ''.join(chr(c) for c in raw)          # a text string; the builder transmits its UTF-8 encoding
    return raw


def canonical(kind, value):
    """big-endian bytes of the value (network order)"""
    if kind in INT_BITS:
        n = INT_BITS[kind]
        return (value & ((1 << n) - 1)).to_bytes(n // 8, 'big') if -(1 << (n - 1)) <= value < (1 << n) else None
    if kind in FLOAT_FMT:
        return struct.pack(FLOAT_FMT[kind][0], value)
    raise ValueError(kind)


def layout(kind, value, byteorder, wordorder):
    """bytes the builder must append for this item; orders are 'big' / 'little'"""
    if kind == 'str':
        return bytes(value)
    if kind == 'text':
        return value.encode('utf-8')
    if kind == 'bits':
        out = bytearray((len(value) + 7) // 8)
        for i, b in enumerate(value):
            if b:
                out[i // 8] |= 1 << (i % 8)
        return bytes(out)
    c = canonical(kind, value)
    if len(c) == 1:
        return c
    ws = [c[i:i + 2] for i in range(0, len(c), 2)]
    if wordorder == 'little':
        ws.reverse()
    if byteorder == 'little':
        ws = [w[::-1] for w in ws]
    return b''.join(ws)


def registers_of(data):
    if len(data) % 2:
        data = data + b'\x00'
    return [(data[i] << 8) | data[i + 1] for i in range(0, len(data), 2)]


def same_value(kind, a, b):
    if kind in FLOAT_FMT:
        fmt = FLOAT_FMT[kind][0]
        try:
            return struct.pack(fmt, a) == struct.pack(fmt, b)
        except Exception:  # noqa
            return False
    if kind == 'bits':
        return [bool(x) for x in a] == [bool(x) for x in b]
    if kind == 'str':
        return bytes(a) == bytes(b)
    if kind == 'text':
        return bytes(a) == b.encode('utf-8')
    return a == b and type(a) is type(b)
