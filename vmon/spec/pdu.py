"""Reference PDU codec written from the MODBUS Application Protocol v1.1b3 (see DESIGN.md
Appendix A).  Nothing here imports pymodbus.  A spec message is a dict
   {'dir': 'req'|'rsp', 'fc': int, <fields>}
Fields per function code:
  1,2   req address,count                 rsp bits (list of bool; on decode 8*bytecount long)
  3,4   req address,count                 rsp registers
  5     address,value(word)               (both directions)
  6     address,value                     (both directions)
  7     req -                             rsp status(byte)
  8     sub, data (list of words)         (both directions)
  11    req -                             rsp status(word), count
  12    req -                             rsp status(word), event_count, message_count, events(bytes)
  15    req address,bits (+optional raw overrides count, byte_count)   rsp address,count
  16    req address,registers (+optional raw overrides count, byte_count)  rsp address,count
  17    req -                             rsp identifier(bytes), run(byte)
  20    req records [(file,record,length)]  rsp records [data bytes (even length)]
  21    records [(file,record,data bytes)]  (both directions)
  22    address,and_mask,or_mask          (both directions)
  23    req read_address,read_count,write_address,registers (+raw overrides write_count, byte_count)
        rsp registers
  24    req address                       rsp values
  43    req read_code,object_id           rsp read_code,conformity,more,next,objects [(id,bytes)]
  >=0x80 rsp code                         (exception response for fc & 0x7f)
"""

REQ, RSP = 'req', 'rsp'
SUPPORTED = (1, 2, 3, 4, 5, 6, 7, 8, 11, 12, 15, 16, 17, 20, 21, 22, 23, 24, 43)
DIAG_SPEC_SUBS = (0, 1, 2, 3, 4, 10, 11, 12, 13, 14, 15, 16, 17, 18, 20)
MEI_DEVID = 0x0E


class SpecError(Exception):
    pass


def u8(v):
    if not 0 <= v <= 0xFF:
        raise SpecError('byte out of range %r' % (v,))
    return bytes([v])


def u16(v):
    if not 0 <= v <= 0xFFFF:
        raise SpecError('word out of range %r' % (v,))
    return bytes([v >> 8, v & 0xFF])


def words(ws):
    return b''.join(u16(w) for w in ws)


def unwords(b):
    if len(b) % 2:
        raise SpecError('odd register data')
    return [(b[i] << 8) | b[i + 1] for i in range(0, len(b), 2)]


def pack_bits(bits):
    """LSB-first: bit i of the list is bit (i % 8) of byte i // 8; zero padded."""
    out = bytearray((len(bits) + 7) // 8)
    for i, b in enumerate(bits):
        if b:
            out[i // 8] |= 1 << (i % 8)
    return bytes(out)


def unpack_bits(data):
    return [bool((data[i // 8] >> (i % 8)) & 1) for i in range(8 * len(data))]


def encode(m):
    """Spec message -> PDU bytes (function code included)."""
    fc, d = m['fc'], m['dir']
    if d == RSP and fc >= 0x80:
        return u8(fc) + u8(m['code'])
    body = _ENC[(d, fc)](m)
    return u8(fc) + body


def _enc_read_req(m):
    return u16(m['address']) + u16(m['count'])


def _enc_bits_rsp(m):
    data = pack_bits(m['bits'])
    return u8(len(data)) + data


def _enc_regs_rsp(m):
    return u8(2 * len(m['registers'])) + words(m['registers'])


def _enc_addr_value(m):
    return u16(m['address']) + u16(m['value'])


def _enc_none(m):
    return b''


def _enc_diag(m):
    return u16(m['sub']) + words(m['data'])


def _enc_write_coils_req(m):
    bits = m['bits']
    data = m['raw_data'] if 'raw_data' in m else pack_bits(bits)
    count = m.get('count', len(bits))
    bc = m.get('byte_count', len(data))
    return u16(m['address']) + u16(count) + u8(bc) + data


def _enc_write_regs_req(m):
    regs = m['registers']
    count = m.get('count', len(regs))
    bc = m.get('byte_count', 2 * len(regs))
    return u16(m['address']) + u16(count) + u8(bc) + (m['raw_data'] if 'raw_data' in m else words(regs))


def _enc_addr_count(m):
    return u16(m['address']) + u16(m['count'])


def _enc_read_file_req(m):
    body = b''.join(u8(6) + u16(f) + u16(r) + u16(l) for f, r, l in m['records'])
    return u8(len(body)) + body


def _enc_read_file_rsp(m):
    body = b''
    for data in m['records']:
        if len(data) % 2:
            raise SpecError('odd record data')
        body += u8(1 + len(data)) + u8(6) + data
    return u8(len(body)) + body


def _enc_write_file(m):
    body = b''
    for f, r, data in m['records']:
        if len(data) % 2:
            raise SpecError('odd record data')
        body += u8(6) + u16(f) + u16(r) + u16(len(data) // 2) + data
    return u8(len(body)) + body


def _enc_mask(m):
    return u16(m['address']) + u16(m['and_mask']) + u16(m['or_mask'])


def _enc_rw_req(m):
    regs = m['registers']
    wc = m.get('write_count', len(regs))
    bc = m.get('byte_count', 2 * len(regs))
    return (u16(m['read_address']) + u16(m['read_count']) + u16(m['write_address'])
            + u16(wc) + u8(bc) + (m['raw_data'] if 'raw_data' in m else words(regs)))


def _enc_fifo_req(m):
    return u16(m['address'])


def _enc_fifo_rsp(m):
    n = len(m['values'])
    return u16(2 + 2 * n) + u16(n) + words(m['values'])


def _enc_devid_req(m):
    return u8(MEI_DEVID) + u8(m['read_code']) + u8(m['object_id'])


def _enc_devid_rsp(m):
    out = (u8(MEI_DEVID) + u8(m['read_code']) + u8(m['conformity']) + u8(m['more'])
           + u8(m['next']) + u8(len(m['objects'])))
    for oid, val in m['objects']:
        out += u8(oid) + u8(len(val)) + val
    return out


def _enc_exc_status_rsp(m):
    return u8(m['status'])


def _enc_event_counter_rsp(m):
    return u16(m['status']) + u16(m['count'])


def _enc_event_log_rsp(m):
    ev = bytes(m['events'])
    return u8(6 + len(ev)) + u16(m['status']) + u16(m['event_count']) + u16(m['message_count']) + ev


def _enc_slave_id_rsp(m):
    ident = m['identifier']
    return u8(len(ident) + 1) + ident + u8(m['run'])


_ENC = {
    (REQ, 1): _enc_read_req, (REQ, 2): _enc_read_req, (REQ, 3): _enc_read_req, (REQ, 4): _enc_read_req,
    (RSP, 1): _enc_bits_rsp, (RSP, 2): _enc_bits_rsp, (RSP, 3): _enc_regs_rsp, (RSP, 4): _enc_regs_rsp,
    (REQ, 5): _enc_addr_value, (RSP, 5): _enc_addr_value, (REQ, 6): _enc_addr_value, (RSP, 6): _enc_addr_value,
    (REQ, 7): _enc_none, (RSP, 7): _enc_exc_status_rsp,
    (REQ, 8): _enc_diag, (RSP, 8): _enc_diag,
    (REQ, 11): _enc_none, (RSP, 11): _enc_event_counter_rsp,
    (REQ, 12): _enc_none, (RSP, 12): _enc_event_log_rsp,
    (REQ, 15): _enc_write_coils_req, (RSP, 15): _enc_addr_count,
    (REQ, 16): _enc_write_regs_req, (RSP, 16): _enc_addr_count,
    (REQ, 17): _enc_none, (RSP, 17): _enc_slave_id_rsp,
    (REQ, 20): _enc_read_file_req, (RSP, 20): _enc_read_file_rsp,
    (REQ, 21): _enc_write_file, (RSP, 21): _enc_write_file,
    (REQ, 22): _enc_mask, (RSP, 22): _enc_mask,
    (REQ, 23): _enc_rw_req, (RSP, 23): _enc_regs_rsp,
    (REQ, 24): _enc_fifo_req, (RSP, 24): _enc_fifo_rsp,
    (REQ, 43): _enc_devid_req, (RSP, 43): _enc_devid_rsp,
}


# ------------------------------------------------------------------ length function
def pdu_len(d, buf):
    """Length the PDU starting at buf[0] must have given its own leading fields.
    Returns None when buf is too short to tell; raises SpecError for an unsupported fc."""
    if not buf:
        return None
    fc = buf[0]
    if d == RSP and fc >= 0x80:
        return 2
    if fc not in SUPPORTED:
        raise SpecError('unsupported function code %d' % fc)
    need = lambda n: len(buf) > n  # noqa: E731
    if d == REQ:
        if fc in (1, 2, 3, 4, 5, 6):
            return 5
        if fc in (7, 11, 12, 17):
            return 1
        if fc == 8:
            return None if len(buf) < 3 else 5        # request data is one word for all listed subs (0: N words, unknown N)
        if fc in (15, 16):
            return 6 + buf[5] if need(5) else None
        if fc in (20, 21):
            return 2 + buf[1] if need(1) else None
        if fc == 22:
            return 7
        if fc == 23:
            return 10 + buf[9] if need(9) else None
        if fc == 24:
            return 3
        if fc == 43:
            return 4
    else:
        if fc in (1, 2, 3, 4, 12, 17, 20, 21, 23):
            return 2 + buf[1] if need(1) else None
        if fc in (5, 6, 15, 16):
            return 5
        if fc == 7:
            return 2
        if fc == 8:
            return None if len(buf) < 3 else 5
        if fc == 11:
            return 5
        if fc == 22:
            return 7
        if fc == 24:
            return 3 + ((buf[1] << 8) | buf[2]) if need(2) else None
        if fc == 43:
            if len(buf) < 7:
                return None
            n, pos = buf[6], 7
            for _ in range(n):
                if len(buf) < pos + 2:
                    return None
                pos += 2 + buf[pos + 1]
            return pos
    raise SpecError('no length rule')


# ------------------------------------------------------------------ decode
def decode(d, pdu, diag_any_length=True):
    """PDU bytes -> spec message; raises SpecError when the PDU is not spec-conformant
    (inconsistent counts, wrong length, unsupported function code)."""
    if not pdu:
        raise SpecError('empty')
    fc, b = pdu[0], pdu[1:]
    if d == RSP and fc >= 0x80:
        if len(b) != 1:
            raise SpecError('exception length')
        return {'dir': RSP, 'fc': fc, 'code': b[0]}
    if fc not in SUPPORTED:
        raise SpecError('unsupported function code %d' % fc)
    m = {'dir': d, 'fc': fc}

    def exact(n):
        if len(b) != n:
            raise SpecError('fc %d %s: %d data bytes, expected %d' % (fc, d, len(b), n))

    def counted(pos=0):
        if len(b) <= pos or len(b) != pos + 1 + b[pos]:
            raise SpecError('fc %d %s: byte count mismatch' % (fc, d))
        return b[pos + 1:]

    if d == REQ:
        if fc in (1, 2, 3, 4):
            exact(4)
            m['address'], m['count'] = unwords(b)
        elif fc in (5, 6):
            exact(4)
            m['address'], m['value'] = unwords(b)
        elif fc in (7, 11, 12, 17):
            exact(0)
        elif fc == 8:
            if len(b) < 2 or len(b) % 2:
                raise SpecError('diag length')
            ws = unwords(b)
            m['sub'], m['data'] = ws[0], ws[1:]
        elif fc == 15:
            if len(b) < 5:
                raise SpecError('short')
            m['address'], count = unwords(b[:4])
            data = counted(4)
            if len(data) != (count + 7) // 8:
                raise SpecError('fc15 quantity/byte count')
            m['bits'] = unpack_bits(data)[:count]          # padding bits of the last byte are ignored by a receiver
        elif fc == 16:
            if len(b) < 5:
                raise SpecError('short')
            m['address'], count = unwords(b[:4])
            data = counted(4)
            if len(data) != 2 * count:
                raise SpecError('fc16 quantity/byte count')
            m['registers'] = unwords(data)
        elif fc == 20:
            data = counted()
            if len(data) % 7:
                raise SpecError('fc20 byte count')
            recs = []
            for i in range(0, len(data), 7):
                if data[i] != 6:
                    raise SpecError('reference type')
                recs.append(tuple(unwords(data[i + 1:i + 7])))
            m['records'] = recs
        elif fc == 21:
            m['records'] = _dec_write_file(counted())
        elif fc == 22:
            exact(6)
            m['address'], m['and_mask'], m['or_mask'] = unwords(b)
        elif fc == 23:
            if len(b) < 9:
                raise SpecError('short')
            m['read_address'], m['read_count'], m['write_address'], wc = unwords(b[:8])
            data = counted(8)
            if len(data) != 2 * wc:
                raise SpecError('fc23 quantity/byte count')
            m['registers'] = unwords(data)
        elif fc == 24:
            exact(2)
            m['address'], = unwords(b)
        elif fc == 43:
            exact(3)
            if b[0] != MEI_DEVID:
                raise SpecError('mei type')
            m['read_code'], m['object_id'] = b[1], b[2]
    else:
        if fc in (1, 2):
            m['bits'] = unpack_bits(counted())
        elif fc in (3, 4, 23):
            m['registers'] = unwords(counted())
        elif fc in (5, 6):
            exact(4)
            m['address'], m['value'] = unwords(b)
        elif fc == 7:
            exact(1)
            m['status'] = b[0]
        elif fc == 8:
            if len(b) < 2 or len(b) % 2:
                raise SpecError('diag length')
            ws = unwords(b)
            m['sub'], m['data'] = ws[0], ws[1:]
        elif fc == 11:
            exact(4)
            m['status'], m['count'] = unwords(b)
        elif fc == 12:
            data = counted()
            if len(data) < 6:
                raise SpecError('event log short')
            m['status'], m['event_count'], m['message_count'] = unwords(data[:6])
            m['events'] = bytes(data[6:])
        elif fc in (15, 16):
            exact(4)
            m['address'], m['count'] = unwords(b)
        elif fc == 17:
            data = counted()
            if len(data) < 1:
                raise SpecError('slave id short')
            m['identifier'], m['run'] = bytes(data[:-1]), data[-1]
        elif fc == 20:
            data = counted()
            recs, i = [], 0
            while i < len(data):
                if i + 2 > len(data):
                    raise SpecError('sub-response header')
                ln, ref = data[i], data[i + 1]
                if ref != 6 or ln < 1 or (ln - 1) % 2 or i + 1 + ln > len(data):
                    raise SpecError('sub-response')
                recs.append(bytes(data[i + 2:i + 1 + ln]))
                i += 1 + ln
            m['records'] = recs
        elif fc == 21:
            m['records'] = _dec_write_file(counted())
        elif fc == 22:
            exact(6)
            m['address'], m['and_mask'], m['or_mask'] = unwords(b)
        elif fc == 24:
            if len(b) < 4:
                raise SpecError('short')
            bc, n = unwords(b[:4])
            if bc != 2 + 2 * n or len(b) != 2 + bc:
                raise SpecError('fifo counts')
            m['values'] = unwords(b[4:])
        elif fc == 43:
            if len(b) < 6 or b[0] != MEI_DEVID:
                raise SpecError('devid header')
            m['read_code'], m['conformity'], m['more'], m['next'] = b[1], b[2], b[3], b[4]
            n, pos, objs = b[5], 6, []
            for _ in range(n):
                if pos + 2 > len(b) or pos + 2 + b[pos + 1] > len(b):
                    raise SpecError('devid object')
                objs.append((b[pos], bytes(b[pos + 2:pos + 2 + b[pos + 1]])))
                pos += 2 + b[pos + 1]
            if pos != len(b):
                raise SpecError('devid trailing')
            m['objects'] = objs
    return m


def _dec_write_file(data):
    recs, i = [], 0
    while i < len(data):
        if i + 7 > len(data) or data[i] != 6:
            raise SpecError('sub-request')
        f, r, l = unwords(data[i + 1:i + 7])
        if i + 7 + 2 * l > len(data):
            raise SpecError('record data')
        recs.append((f, r, bytes(data[i + 7:i + 7 + 2 * l])))
        i += 7 + 2 * l
    return recs


def norm(m):
    """Normal form for comparison: lists as tuples, bytes as bytes, bools as bools."""
    out = {}
    for k, v in m.items():
        if isinstance(v, (list, tuple)):
            v = tuple(tuple(x) if isinstance(x, (list, tuple)) else (bytes(x) if isinstance(x, (bytes, bytearray)) else x) for x in v)
        elif isinstance(v, (bytes, bytearray)):
            v = bytes(v)
        out[k] = v
    return out


def pad_bits(bits):
    bits = list(bits)
    return bits + [False] * (-len(bits) % 8)
