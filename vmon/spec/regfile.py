"""The Modbus data model as an executable reference (no pymodbus imports).

Tables are dictionaries {pdu_address: value} restricted to the configured cells; a request is
a spec message (spec/pdu.py), possibly with raw overrides ('count', 'byte_count',
'write_count') that make its header inconsistent with its data.  Validation order per the
v1.1b3 state diagrams: function supported -> 01; quantity / value / byte count -> 03;
address range -> 02; execution failure -> 04."""
from .pdu import REQ, RSP

TABLE_OF_FC = {1: 'c', 5: 'c', 15: 'c', 2: 'd', 3: 'h', 6: 'h', 16: 'h', 22: 'h', 23: 'h', 4: 'i'}
DATA_FCS = (1, 2, 3, 4, 5, 6, 15, 16, 22, 23)
LIMITS = {1: 2000, 2: 2000, 3: 125, 4: 125, 15: 1968, 16: 123}


def exc(fc, code):
    return {'dir': RSP, 'fc': fc | 0x80, 'code': code}


class RegFile(object):
    def __init__(self, tables, aliases=None):
        """tables: {'c': {addr: bool}, 'd': {...}, 'i': {addr: word}, 'h': {...}};
        aliases: e.g. {'d': 'c'} when one block object serves two like tables."""
        self.t = {k: dict(v) for k, v in tables.items()}
        for a, b in (aliases or {}).items():
            self.t[a] = self.t[b]
        self.fail_next = False           # datastore failure injection -> exception 04

    def copy(self):
        import copy
        return copy.deepcopy(self)

    def reset(self):
        """the datastore's reset(): every populated cell back to its type's zero value; the populated addresses do not change"""
        for k, t in self.t.items():
            for a in t:
                t[a] = False if k in 'cd' else 0

    def dump(self):
        return {k: dict(v) for k, v in self.t.items()}

    def _in(self, table, a, n):
        t = self.t[table]
        return all((a + i) in t for i in range(n))

    def classify(self, m):
        """exception code the request must be answered with, or 0 for a normal response"""
        fc = m['fc']
        if fc not in DATA_FCS:
            return 1
        tab = TABLE_OF_FC[fc]
        if fc in (1, 2, 3, 4):
            if not 1 <= m['count'] <= LIMITS[fc]:
                return 3
            return 0 if self._in(tab, m['address'], m['count']) else 2
        if fc == 5:
            if m['value'] not in (0x0000, 0xFF00):
                return 3
            return 0 if self._in(tab, m['address'], 1) else 2
        if fc in (6, 22):
            return 0 if self._in(tab, m['address'], 1) else 2
        if fc == 15:
            q = m.get('count', len(m['bits']))
            bc = m.get('byte_count', (len(m['bits']) + 7) // 8)
            if not 1 <= q <= 1968 or bc != (q + 7) // 8:
                return 3
            return 0 if self._in(tab, m['address'], q) else 2
        if fc == 16:
            q = m.get('count', len(m['registers']))
            bc = m.get('byte_count', 2 * len(m['registers']))
            if not 1 <= q <= 123 or bc != 2 * q:
                return 3
            return 0 if self._in(tab, m['address'], q) else 2
        if fc == 23:
            wq = m.get('write_count', len(m['registers']))
            bc = m.get('byte_count', 2 * len(m['registers']))
            if not 1 <= m['read_count'] <= 125 or not 1 <= wq <= 121 or bc != 2 * wq:
                return 3
            if not self._in(tab, m['read_address'], m['read_count']) or not self._in(tab, m['write_address'], wq):
                return 2
            return 0
        return 1

    def execute(self, m):
        """apply the request; returns the spec response message"""
        fc = m['fc']
        code = self.classify(m)
        if code:
            return exc(fc, code)
        if self.fail_next:
            return exc(fc, 4)
        t = self.t[TABLE_OF_FC[fc]]
        a = m.get('address')
        if fc in (1, 2):
            return {'dir': RSP, 'fc': fc, 'bits': [bool(t[a + i]) for i in range(m['count'])]}
        if fc in (3, 4):
            return {'dir': RSP, 'fc': fc, 'registers': [t[a + i] for i in range(m['count'])]}
        if fc == 5:
            t[a] = (m['value'] == 0xFF00)
            return {'dir': RSP, 'fc': 5, 'address': a, 'value': m['value']}
        if fc == 6:
            t[a] = m['value']
            return {'dir': RSP, 'fc': 6, 'address': a, 'value': m['value']}
        if fc == 15:
            q = m.get('count', len(m['bits']))
            for i in range(q):
                t[a + i] = bool(m['bits'][i])
            return {'dir': RSP, 'fc': 15, 'address': a, 'count': q}
        if fc == 16:
            q = m.get('count', len(m['registers']))
            for i in range(q):
                t[a + i] = m['registers'][i]
            return {'dir': RSP, 'fc': 16, 'address': a, 'count': q}
        if fc == 22:
            cur = t[a]
            t[a] = (cur & m['and_mask']) | (m['or_mask'] & ~m['and_mask'] & 0xFFFF)
            return {'dir': RSP, 'fc': 22, 'address': a, 'and_mask': m['and_mask'], 'or_mask': m['or_mask']}
        if fc == 23:
            wa = m['write_address']
            for i, v in enumerate(m['registers']):
                t[wa + i] = v                                   # write first ...
            ra = m['read_address']
            return {'dir': RSP, 'fc': 23, 'registers': [t[ra + i] for i in range(m['read_count'])]}   # ... then read
        raise AssertionError(fc)
