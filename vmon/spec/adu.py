"""Reference framings and receivers, written from MODBUS over Serial Line v1.02 and MODBUS
Messaging on TCP/IP v1.0b (DESIGN.md Appendix A).  No pymodbus imports.

build(framing, unit, pdu, tid, pid)      the ADU for a PDU
parse_stream(framing, d, data)           strict sequential receiver: list of frames + leftover/err
candidates(framing, d, data)             every well-formed, integrity-valid frame anywhere in data
                                         (the justification set of C07/C11/C12)
"""
from . import pdu as S

FRAMINGS = ('tcp', 'rtu', 'ascii', 'binary', 'tls')


def crc16(data):
    """CRC-16/MODBUS computed bit by bit (poly 0xA001 reflected, init 0xFFFF)."""
    crc = 0xFFFF
    for b in data:
        crc ^= b
        for _ in range(8):
            if crc & 1:
                crc = (crc >> 1) ^ 0xA001
            else:
                crc >>= 1
    return crc


_TAB = []


def _crc_table():
    """byte-wise table derived from the bit-by-bit definition above (only used to scan long streams)"""
    if not _TAB:
        for b in range(256):
            c = b
            for _ in range(8):
                c = (c >> 1) ^ 0xA001 if c & 1 else c >> 1
            _TAB.append(c)
    return _TAB


def crc_bytes(data):
    c = crc16(data)
    return bytes([c & 0xFF, c >> 8])        # low byte first on the wire


def lrc(data):
    return (-sum(data)) & 0xFF


def escape_binary(data):
    out = bytearray()
    for b in data:
        if b in (0x7B, 0x7D):
            out.append(b)
        out.append(b)
    return bytes(out)


def unescape_binary(data):
    out, i = bytearray(), 0
    while i < len(data):
        b = data[i]
        if b in (0x7B, 0x7D) and i + 1 < len(data) and data[i + 1] == b:
            i += 1
        out.append(b)
        i += 1
    return bytes(out)


def build(framing, unit, pdu, tid=0, pid=0):
    if framing == 'tcp':
        return S.u16(tid) + S.u16(pid) + S.u16(len(pdu) + 1) + bytes([unit]) + pdu
    if framing == 'rtu':
        body = bytes([unit]) + pdu
        return body + crc_bytes(body)
    if framing == 'ascii':
        body = bytes([unit]) + pdu
        return b':' + (body + bytes([lrc(body)])).hex().upper().encode() + b'\r\n'
    if framing == 'tls':
        return pdu
    if framing == 'binary':
        body = bytes([unit]) + pdu[:1] + escape_binary(pdu[1:])
        return b'{' + body + crc_bytes(body) + b'}'
    raise ValueError(framing)


def binary_build_ok(packet, unit, pdu):
    """structural oracle for the binary framing: '{' ... '}' whose interior is unit + PDU + CRC
    under either CRC-over-escaped or CRC-over-raw convention, PDU data escaped or not."""
    if len(packet) < 6 or packet[:1] != b'{' or packet[-1:] != b'}':
        return False
    inner = packet[1:-1]
    body, crc = inner[:-2], inner[-2:]
    raw = bytes([unit]) + pdu
    for cand in (raw, bytes([unit, pdu[0]]) + escape_binary(pdu[1:]), escape_binary(raw)):
        if body == cand and crc in (crc_bytes(cand), crc_bytes(raw)):
            return True
    return False


def binary_build_conventions(packet, unit, pdu):
    """which of the conventions accepted by binary_build_ok this packet follows:
    set of (body convention, crc convention); empty = not a well-formed binary frame for (unit, pdu)"""
    out = set()
    if len(packet) < 6 or packet[:1] != b'{' or packet[-1:] != b'}':
        return out
    inner = packet[1:-1]
    body, crc = inner[:-2], inner[-2:]
    raw = bytes([unit]) + pdu
    for name, cand in (('raw', raw), ('data-escaped', bytes([unit, pdu[0]]) + escape_binary(pdu[1:])), ('all-escaped', escape_binary(raw))):
        if body == cand:
            if crc == crc_bytes(cand):
                out.add((name, 'crc-over-body-as-sent'))
            if crc == crc_bytes(raw):
                out.add((name, 'crc-over-raw'))
    return out


class Frame(object):
    __slots__ = ('start', 'end', 'unit', 'tid', 'pid', 'pdu', 'msg')

    def __init__(self, start, end, unit, pdu, msg, tid=None, pid=None):
        self.start, self.end, self.unit, self.pdu, self.msg, self.tid, self.pid = start, end, unit, pdu, msg, tid, pid

    def key(self):
        return (self.unit, self.tid, self.pid, bytes(self.pdu))

    def __repr__(self):
        return 'Frame(%d:%d unit=%s tid=%s pdu=%s)' % (self.start, self.end, self.unit, self.tid, bytes(self.pdu).hex())


def _try(d, pdu):
    try:
        return S.decode(d, bytes(pdu))
    except S.SpecError:
        return None


LOOSE = [False]      # candidates(loose=True): integrity-valid frames whose PDU is not spec-conformant count too


def _try_illegal(d, pdu):
    """like _try, but a request with an unsupported function code is a frame too (answered with exception 01)"""
    m = _try(d, pdu)
    if m is None and d == S.REQ and len(pdu) >= 1 and pdu[0] not in S.SUPPORTED:
        return {'dir': d, 'fc': pdu[0], 'illegal': True}
    if m is None and LOOSE[0] and len(pdu) >= 1:
        return {'dir': d, 'fc': pdu[0], 'malformed': True}
    return m


def _rtu_frame_at(d, data, pos, lenient_diag=True, skip=0):
    """(frame, None) / (None, 'incomplete') / (None, 'bad'); skip: diagnostic frames only - ignore CRC-valid extents with fewer
    than `skip` data words (a diagnostic frame whose data word happens to equal the CRC of the shorter frame has two readings)"""
    if len(data) - pos < 2:
        return None, 'incomplete'
    fc = data[pos + 1]
    if fc == 8 or (fc not in S.SUPPORTED and not (d == S.RSP and fc >= 0x80)):
        if fc != 8:
            return None, 'bad'
        # diagnostic: data length is not self-describing; take the shortest CRC-valid even extent
        for n in range(3 + 2 * skip, min(254, len(data) - pos - 2) + 1, 2):
            body = data[pos:pos + 1 + n]
            if data[pos + 1 + n:pos + 3 + n] == crc_bytes(body):
                m = _try(d, body[1:])
                if m is not None:
                    return Frame(pos, pos + 3 + n, data[pos], body[1:], m), None
        return None, 'incomplete'
    try:
        n = S.pdu_len(d, data[pos + 1:])
    except S.SpecError:
        return None, 'bad'
    if n is None or len(data) - pos < 1 + n + 2:
        return None, 'incomplete'
    body = data[pos:pos + 1 + n]
    if data[pos + 1 + n:pos + 3 + n] != crc_bytes(body):
        return None, 'bad'
    m = _try(d, body[1:])
    if m is None:
        return None, 'bad'
    return Frame(pos, pos + 3 + n, data[pos], body[1:], m), None


def parse_stream(framing, d, data):
    """Strict sequential receiver.  Returns (frames, leftover_offset, error).  error is None when
    the stream is a sequence of valid frames possibly followed by an incomplete one."""
    data = bytes(data)
    frames, pos = [], 0
    if framing == 'tcp':
        while pos < len(data):
            if len(data) - pos < 7:
                return frames, pos, None
            tid, pid, ln = S.unwords(data[pos:pos + 6])
            if ln < 2 or ln > 254:
                return frames, pos, 'mbap length %d' % ln
            if len(data) - pos < 6 + ln:
                return frames, pos, None
            pdu = data[pos + 7:pos + 6 + ln]
            m = _try_illegal(d, pdu)
            if m is None:
                return frames, pos, 'mbap length inconsistent with PDU / malformed PDU'
            frames.append(Frame(pos, pos + 6 + ln, data[pos + 6], pdu, m, tid, pid))
            pos += 6 + ln
        return frames, pos, None
    if framing == 'rtu':
        best = None
        stack = [(0, [])]                       # depth-first over the (rare) alternative extents of diagnostic frames
        steps = 0
        while stack and steps < 20000:
            pos, frames = stack.pop()
            while True:
                steps += 1
                if pos >= len(data):
                    return frames, pos, None
                f, err = _rtu_frame_at(d, data, pos)
                if f is None:
                    res = (frames, pos, None if err == 'incomplete' else 'bad rtu frame at %d' % pos)
                    if res[2] is None and not (len(data) > pos + 1 and data[pos + 1] == 8):
                        return res
                    if best is None or (res[2] is None) > (best[2] is None) or ((res[2] is None) == (best[2] is None) and res[1] > best[1]):
                        best = res
                    break
                if len(f.pdu) >= 1 and f.pdu[0] == 8:
                    # a longer CRC-valid reading of the same diagnostic frame is an alternative to come back to
                    alt, _ = _rtu_frame_at(d, data, pos, skip=(len(f.pdu) - 3) // 2 + 1)
                    if alt is not None:
                        stack.append((alt.end, frames + [alt]))
                frames = frames + [f]
                pos = f.end
        return best if best is not None else ([], 0, None)
    if framing == 'ascii':
        while pos < len(data):
            if data[pos:pos + 1] != b':':
                return frames, pos, 'no start character at %d' % pos
            end = data.find(b'\r\n', pos)
            if end < 0:
                return frames, pos, None
            f = _ascii_frame(d, data, pos, end + 2)
            if f is None:
                return frames, pos, 'bad ascii frame at %d' % pos
            frames.append(f)
            pos = end + 2
        return frames, pos, None
    if framing == 'binary':
        while pos < len(data):
            if data[pos:pos + 1] != b'{':
                return frames, pos, 'no start character at %d' % pos
            # the end delimiter is the first '}' that closes a CRC-valid frame
            found = None
            end = data.find(b'}', pos + 1)
            while end >= 0:
                fs = _binary_frames(d, data, pos, end + 1)
                if fs:
                    found = fs[0]
                    break
                end = data.find(b'}', end + 1)
            if found is None:
                return frames, pos, None if data.find(b'}', pos + 1) < 0 else 'bad binary frame at %d' % pos
            frames.append(found)
            pos = found.end
        return frames, pos, None
    if framing == 'tls':
        m = _try(d, data)
        if data and m is None:
            return [], 0, 'malformed PDU'
        return ([Frame(0, len(data), None, data, m)] if data else []), len(data), None
    raise ValueError(framing)


HEX = b'0123456789abcdefABCDEF'


def _ascii_frame(d, data, start, end):
    """data[start] == ':' and data[end-2:end] == CRLF"""
    text = data[start + 1:end - 2]
    if len(text) < 6 or len(text) % 2 or any(c not in HEX for c in text):
        return None
    raw = bytes.fromhex(text.decode())
    body, chk = raw[:-1], raw[-1]
    if lrc(body) != chk:
        return None
    m = _try_illegal(d, body[1:])
    if m is None:
        return None
    return Frame(start, end, body[0], body[1:], m)


def _binary_frames(d, data, start, end):
    """all valid readings of data[start:end] = '{' ... '}'"""
    inner = data[start + 1:end - 1]
    if len(inner) < 4:
        return []
    body, crc = inner[:-2], inner[-2:]
    out = []
    readings = []
    if crc == crc_bytes(body):
        readings += [body[:2] + unescape_binary(body[2:]), unescape_binary(body), body]
    un = unescape_binary(body)
    if crc == crc_bytes(un):
        readings.append(un)
    seen = set()
    for rd in readings:
        if rd in seen or len(rd) < 2:
            continue
        seen.add(rd)
        m = _try_illegal(d, rd[1:])
        if m is not None:
            out.append(Frame(start, end, rd[0], rd[1:], m))
    return out


def candidates(framing, d, data, loose=False):
    """Every well-formed frame with a valid integrity check that occurs as a contiguous part of data.
    loose=True (serial framings): frames whose checksum holds but whose PDU is not spec-conformant are
    returned too, with msg = {'fc': .., 'malformed': True}."""
    LOOSE[0] = bool(loose) and framing != 'tcp'
    try:
        return _candidates(framing, d, data)
    finally:
        LOOSE[0] = False


def _candidates(framing, d, data):
    data = bytes(data)
    out = []
    n = len(data)
    if framing == 'rtu':
        tab = _crc_table()
        for i in range(n - 3):
            crc = 0xFFFF
            for j in range(i, min(n - 2, i + 257)):          # an RTU frame is at most 256 bytes
                crc = (crc >> 8) ^ tab[(crc ^ data[j]) & 0xFF]
                if j - i >= 1 and data[j + 1] == (crc & 0xFF) and data[j + 2] == (crc >> 8):
                    m = _try_illegal(d, data[i + 1:j + 1])
                    if m is not None:
                        out.append(Frame(i, j + 3, data[i], data[i + 1:j + 1], m))
    elif framing == 'ascii':
        starts = [i for i in range(n) if data[i] == 0x3A]
        ends = [i for i in range(n - 1) if data[i:i + 2] == b'\r\n']
        for s in starts:
            for e in ends:
                if s < e <= s + 520:
                    f = _ascii_frame(d, data, s, e + 2)
                    if f is not None:
                        out.append(f)
    elif framing == 'binary':
        starts = [i for i in range(n) if data[i] == 0x7B]
        ends = [i for i in range(n) if data[i] == 0x7D]
        for s in starts:
            for e in ends:
                if s < e <= s + 520:
                    out += _binary_frames(d, data, s, e + 1)
    elif framing == 'tcp':
        for i in range(n - 7):
            tid, pid, ln = S.unwords(data[i:i + 6])
            if 2 <= ln <= 254 and i + 6 + ln <= n:
                pdu = data[i + 7:i + 6 + ln]
                m = _try(d, pdu)
                if m is not None:
                    out.append(Frame(i, i + 6 + ln, data[i + 6], pdu, m, tid, pid))
    return out
