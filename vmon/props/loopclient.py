"""End-to-end segment over real sockets (thorough tiers of C08 and C14): the real synchronous client talks to the real
synchronous / asyncio server of the same tree over loopback, no OS double in between.  The reference register file
predicts every reply and the final store.  Purpose: the client checks otherwise rest on the OS doubles (virtual clock,
fake socket / select); here the same client code runs against a real kernel socket, so a double that misrepresents the
transport shows up as a disagreement between the two kinds of run.

Wall-clock time is never a verdict: a transaction that takes as long as the client timeout is counted (`slow`) and, if the
result is right, only reported in the evidence; a run with many of them is inconclusive through the watchdog counter."""
import time

from .. import adapters as A
from .. import realnet as RN
from .. import repo
from .. import servermodel as SM
from ..core import h64
from ..frontends import FRAMER
from ..spec import adu as ADU
from ..spec import pdu as S
from ..spec.pdu import REQ, RSP

UNIT = 1
TIMEOUT = 2.0
PREDICTED = (1, 2, 3, 4, 5, 6, 8, 15, 16, 23)      # request types with a reply-size prediction (C14's quantifier)


def _client(framing, port):
    from pymodbus.client.sync import ModbusTcpClient
    return ModbusTcpClient(RN.HOST, port, framer=FRAMER[framing], timeout=TIMEOUT)


def _delimiter_free(framing, m, want):
    if framing != 'binary':
        return True
    for d, msg in ((REQ, m), (RSP, want)):
        f = ADU.build('binary', UNIT, S.encode(msg))
        if any(b in (0x7B, 0x7D) for b in f[1:-1]):
            return False
    return True


def histories(run, r, uniq, n_hist, per_hist=12, framings=('tcp', 'rtu', 'ascii', 'binary'), servers=('sync', 'aio'), prop='C08'):
    from .c04 import gen_history
    from .c12 import gen_layout
    for framing in framings:
        for server in servers:
            for i in range(n_hist):
                layout = gen_layout(r)
                layout['single'] = True
                hist = gen_history(r, layout, per_hist, uniq)
                one(run, {'loopclient': True, 'framing': framing, 'server': server, 'layout': layout, 'history': hist}, prop)


def one(run, case, prop):
    framing, server, layout, hist = case['framing'], case['server'], case['layout'], case['history']
    repo.reset_globals()
    ctx, model, blocks = SM.build(layout)
    rf = model.only
    try:
        srv = RN.SyncServer('tcp', framing, ctx) if server == 'sync' else RN.AioServer(framing, ctx)
    except Exception as e:  # noqa
        run.watchdogs += 1
        run.observed['loopclient_start_error'] = repr(e)[:200]
        return
    cl = _client(framing, srv.port)
    bad = None
    done = 0
    try:
        for k, m in enumerate(hist):
            if m['fc'] not in PREDICTED and framing != 'tcp' and k % 6:
                continue                      # no prediction (FC22): a serial-framing client reads until its timeout, by design
            want = rf_preview(rf, m)
            if not _delimiter_free(framing, m, want):
                continue                      # binary-delimiter-in-body region: judged by the in-process checks
            try:
                req = A.build(m, unit=UNIT)
            except A.Unrepresentable:
                continue
            want = rf.execute(m)
            t0 = time.time()
            try:
                got = cl.execute(req)
            except Exception as e:  # noqa
                bad = ('raised', 'request %d %r raised %r' % (k, m, e))
                break
            dt = time.time() - t0
            done += 1
            run.count('loopclient_transactions:%s' % framing)
            if dt >= TIMEOUT * 0.9:
                run.count('loopclient_slow')
                run.count('loopclient_slow:%s:%s' % (framing, 'exception' if want['fc'] & 0x80 else 'fc%d' % want['fc']))
            ok, why = judge(req, got, want)
            if not ok:
                if dt >= TIMEOUT * 0.9 and 'error object' in why:
                    run.watchdogs += 1        # nothing arrived within the wall-clock timeout: not a verdict
                    run.count('loopclient_timeouts')
                    bad = None
                    break
                bad = ('reply', 'request %d %r: %s (%.2fs)' % (k, _short(m), why, dt))
                break
            if prop == 'C14' and dt >= TIMEOUT * 0.9 and m['fc'] in PREDICTED:
                # right reply but only after the whole timeout: did the client wait for bytes that never come, or did the
                # machine stall?  The same (idempotent) request twice more: only three slow runs in a row count.
                again = []
                for _ in range(2):
                    rf.execute(m)
                    t1 = time.time()
                    try:
                        cl.execute(A.build(m, unit=UNIT))
                    except Exception:  # noqa
                        pass
                    again.append(time.time() - t1)
                if all(x >= TIMEOUT * 0.9 for x in again):
                    bad = ('waited-for-timeout', 'request %d %r returned the right reply only after the client timeout, three times in a row (%.2fs, %s; timeout %.1fs)'
                           % (k, _short(m), dt, ', '.join('%.2fs' % x for x in again), TIMEOUT))
                    break
                run.watchdogs += 1
        dump = SM.norm_dump(SM.dump(blocks, layout['zero_mode']))
    finally:
        try:
            cl.close()
        except Exception:  # noqa
            pass
        srv.stop()
    if bad is None and done and dump != model.dump():
        bad = ('store', 'final store of the real server differs from the model')
    run.case(h64(('loopclient', framing, server, repr(hist), repr(layout))), done >= 2,
             sample={'kind': 'real client <-> real %s server over loopback' % server, 'framing': framing, 'transactions': done,
                     'verdict': 'every reply and the final store as the model predicts' if not bad else bad[0]},
             sample_class=('loopclient', framing, server))
    if bad:
        run.violation('loopclient:%s/%s:%s' % (framing, server, bad[0]), case, bad[1])


def rf_preview(rf, m):
    """expected response without changing the model (for the delimiter test only)"""
    import copy
    return copy.deepcopy(rf).execute(m)


def judge(req, got, want):
    if isinstance(got, Exception) or not hasattr(got, 'function_code'):
        return False, 'client returned the error object %r, the model expects %s' % (got, _short(want))
    try:
        g = A.extract(got)
    except Exception as e:  # noqa
        return False, 'result %r cannot be read back: %r' % (got, e)
    if want['fc'] & 0x80:
        ok = g.get('fc') == want['fc'] and g.get('code') == want['code']
    else:
        ok = g.get('fc') == want['fc'] and A.same(g, want, pad=True)
    if not ok:
        return False, 'client returned %s, the model expects %s' % (_short(g), _short(want))
    if getattr(got, 'unit_id', UNIT) != UNIT:
        return False, 'reply carries unit id %r' % (got.unit_id,)
    return True, ''


def _short(m):
    s = repr({k: v for k, v in m.items() if k != 'dir'})
    return s if len(s) < 160 else s[:157] + '...'
