"""C13 - client transactions end in bounded time with a result and recover.

Fault enumeration in virtual time: every script of per-attempt transport behaviours (full
reply, exception reply, nothing, k of n bytes, garbage, frame of another unit, stale reply,
late reply, OSError on send / receive, peer close) up to length 1+retries is played against
the real sync clients on the OS doubles; every script is followed by one healthy
transaction.  Decided on logical steps / virtual seconds; the step watchdog decides
'unbounded'."""
import itertools

import serial as _pyserial

from .. import adapters as A
from .. import repo
from ..core import h64
from ..doubles import clientio as IO
from ..doubles import peers as P
from ..spec import pdu as S
from ..spec import adu as ADU
from ..spec.pdu import REQ, RSP
from .c08 import classify_result

from pymodbus.exceptions import ModbusException, ConnectionException

LEVEL = 'fault_enumeration'
SHARDS = {'thorough': 16}
ANCHORS = ['pymodbus/transaction.py', 'pymodbus/client/sync.py', 'pymodbus/framer/rtu_framer.py']
KINDS = ['tcp', 'rtu', 'ascii', 'binary', 'rtu-over-tcp', 'udp']
BEHAVIOURS = ['own', 'exception', 'none', 'partial', 'garbage', 'wrong-unit', 'stale', 'late', 'oserror-send', 'oserror-recv', 'close', 'split']
TIMEOUT = 1.0
UNIT = 1


def behaviour(name, framing, r):
    if name == 'own':
        return {'kind': 'own'}
    if name == 'exception':
        return {'kind': 'exception', 'code': 2}
    if name == 'none':
        return {'kind': 'none'}
    if name == 'partial':
        return {'kind': 'partial', 'k': r.randint(1, 12)}
    if name == 'split':
        # the whole reply, in two segments well inside the timeout (the first one shorter than a header)
        return {'kind': 'split', 'k': r.randint(1, 7), 'delay': r.choice([0.05, 0.2])}
    if name == 'garbage':
        g = bytearray(r.randrange(256) for _ in range(r.randint(1, 24)))
        if framing == 'tcp' and len(g) >= 6:
            g[4:6] = b'\x7f\xff'        # MBAP has no checksum: keep the garbage from being a syntactically complete frame
        return {'kind': 'garbage', 'bytes': bytes(g)}
    if name == 'wrong-unit':
        return {'kind': 'frame', 'unit': 9}
    if name == 'stale':
        return {'kind': 'frame', 'tid_delta': -1, 'msg': {'dir': RSP, 'fc': 3, 'registers': [0xDEAD]}} if framing == 'tcp' else \
               {'kind': 'frame', 'unit': 7, 'msg': {'dir': RSP, 'fc': 3, 'registers': [0xDEAD]}}
    if name == 'late':
        return {'kind': 'late', 'factor': 1.5}
    if name in ('oserror-send', 'oserror-recv', 'close'):
        return {'kind': name}
    raise ValueError(name)


REQUESTS = [{'dir': REQ, 'fc': 3, 'address': 100, 'count': 3}, {'dir': REQ, 'fc': 16, 'address': 200, 'registers': [11, 22]},
            {'dir': REQ, 'fc': 1, 'address': 300, 'count': 11},
            {'dir': REQ, 'fc': 23, 'read_address': 10, 'read_count': 6, 'write_address': 40, 'registers': [7, 8]},
            {'dir': REQ, 'fc': 23, 'read_address': 10, 'read_count': 1, 'write_address': 40, 'registers': [1, 2, 3, 4, 5]},
            {'dir': REQ, 'fc': 5, 'address': 12, 'value': 0xFF00}, {'dir': REQ, 'fc': 15, 'address': 20, 'bits': [True, False, True] * 5},
            {'dir': REQ, 'fc': 4, 'address': 0, 'count': 60}, {'dir': REQ, 'fc': 8, 'sub': 0, 'data': [0xA5A5]},
            {'dir': REQ, 'fc': 3, 'address': 0, 'count': 125}, {'dir': REQ, 'fc': 1, 'address': 0, 'count': 2000}]      # replies of the maximum size


_BIN_SAFE = {}


def binary_safe(m):
    key = repr(m)
    if key not in _BIN_SAFE:
        ok = True
        for msg in (m, P.conformant_reply(P.lazy_regfile(), m)):
            f = ADU.build('binary', UNIT, S.encode(msg))
            ok = ok and not any(b in (0x7B, 0x7D) for b in f[1:-1])
        _BIN_SAFE[key] = ok
    return _BIN_SAFE[key]


def regions(kind, framing, cfg, names):
    out = set()
    R, roe, roi = cfg['retries'], cfg['retry_on_empty'], cfg['retry_on_invalid']
    if R == 0 and roi and names and names[0] not in ('own', 'exception', 'split'):
        out.add('retries-zero-treated-as-one')
    k = 0
    while k < len(names) and names[k] in ('none',):
        k += 1
    if roe and not roi and 1 <= k <= R and k < len(names) and names[k] in ('own', 'exception', 'split'):
        out.add('retry-on-empty-needs-retry-on-invalid')
    if framing == 'ascii' and any(n in ('garbage', 'partial') for n in names):
        out.add('ascii-client-raises-on-nonhex-reply')
    if framing == 'tcp' and 'stale' in names:
        out.add('tcp-reply-tid-unchecked')
    if kind == 'udp' and (roe or roi) and R >= 1 and names[0] not in ('own', 'exception', 'split'):
        out.add('udp-retry-reads-header-first')
    return out


def must_succeed(cfg, names):
    """scripts for which the documented options oblige the client to return the reply"""
    R, roe, roi = cfg['retries'], cfg['retry_on_empty'], cfg['retry_on_invalid']
    if names[0] in ('own', 'exception', 'split'):
        return True
    for flag, fault in ((roe, 'none'), (roi, 'wrong-unit')):
        if flag:
            k = 0
            while k < len(names) and names[k] == fault:
                k += 1
            if 1 <= k <= R and k < len(names) and names[k] in ('own', 'exception', 'split'):
                return True
    return False


def run_script(run, case):
    kind, cfg, names, m = case['client'], case['cfg'], case['script'], case['m']
    framing = IO.framing_of(kind)
    import random
    r = random.Random(case['bseed'])
    script = [behaviour(n, framing, r) for n in names]
    if kind in ('rtu', 'ascii', 'binary') or kind == 'udp':
        for b in script:
            if b['kind'] == 'close':
                b['kind'] = 'none'                # no connection to close on a serial line / datagram socket
            if b['kind'] == 'split':
                b['kind'] = 'own'                 # a serial line delivers a frame without gaps, a datagram is never split: only TCP segments
    peer = P.ScriptedPeer(framing, script=script, timeout=TIMEOUT)
    if kind in ('rtu', 'ascii', 'binary'):
        orig = peer.before_send

        def before_send(conn, data, orig=orig):
            try:
                orig(conn, data)
            except ConnectionResetError:
                raise _pyserial.SerialException('write failed: device reports readiness to read but returned no data')
        peer.before_send = before_send
    env = IO.Env(peer)
    env.op_limit = 60000
    repo.reset_globals()
    regs = regions(kind, framing, cfg, names)
    if kind == 'udp' and any(b['kind'] in ('garbage', 'partial') for b in script):
        regs.add('socket-short-header')
    warm = bool(case.get('warm'))
    if warm:
        peer.script.insert(0, {'kind': 'own'})       # the warm-up transaction is answered conformantly
    for slug in regs:
        run.region(slug)
    kinds = {}
    with IO.installed(env):
        kw = dict(timeout=TIMEOUT, retries=cfg['retries'], retry_on_empty=cfg['retry_on_empty'], retry_on_invalid=cfg['retry_on_invalid'])
        if case.get('via_defaults'):
            # the retry options are configured through the process-wide Defaults and the keywords are left out
            from pymodbus.constants import Defaults
            saved = (Defaults.Retries, Defaults.RetryOnEmpty, Defaults.RetryOnInvalid)
            Defaults.Retries, Defaults.RetryOnEmpty, Defaults.RetryOnInvalid = cfg['retries'], cfg['retry_on_empty'], cfg['retry_on_invalid']
            try:
                client = IO.make_client(kind, timeout=TIMEOUT)
            finally:
                Defaults.Retries, Defaults.RetryOnEmpty, Defaults.RetryOnInvalid = saved
        else:
            client = IO.make_client(kind, **kw)
        client.connect()
        if case.get('tid_start') is not None:
            client.transaction.tid = case['tid_start']       # a client that has been in use for a long time: the id counter is about to wrap
        base = 0
        if warm:
            # a client that has already completed a transaction (its framer, transaction table and state are no longer pristine)
            m0 = {'dir': REQ, 'fc': 3, 'address': 77, 'count': 1}
            try:
                r0 = client.execute(A.build(m0, unit=UNIT))
                ok0 = classify_result(r0, P.conformant_reply(P.lazy_regfile(), m0), None, UNIT, None, framing) == 'own'
            except Exception:  # noqa
                ok0 = False
            base = peer.i
            if not ok0 or base != 1:
                run.count('warmup_failed')
                return True
            run.count('warm_scripts')
        t0, ops0, tr0 = env.clock.now, env.ops, len(env.trace)
        req = A.build(m, unit=UNIT)
        result, exc = None, None
        try:
            result = client.execute(req)
        except IO.StepWatchdog as e:
            kinds['unbounded'] = 'step watchdog: %s' % e
        except Exception as e:  # noqa
            exc = e
        elapsed, ops = env.clock.now - t0, env.ops - ops0
        attempts = peer.i - base
        consumed = (list(names) + ['own'] * attempts)[:attempts]      # beyond the script the peer answers conformantly
        del peer.script[base + attempts:]                            # the follow-up transaction meets a healthy peer
        run.count('scripts:%s' % kind)
        run.count('attempts', attempts)
        R = cfg['retries']
        backoff = sum(0.3 * 2 ** i for i in range(R + 2))
        bound = (2 + R) * 3 * TIMEOUT + backoff + 1.0
        if 'unbounded' not in kinds:
            # "failure to establish the connection excepted": a ConnectionException is in order only when a connection attempt
            # made during this call failed - not when an established connection was lost in the middle of the transaction
            tr = [e[1] for e in env.trace[tr0:]]
            connect_failed = tr.count('connect') > tr.count('connected')
            if exc is not None and not (isinstance(exc, ConnectionException) and connect_failed):
                kinds['raised:%s' % type(exc).__name__] = 'execute raised %r' % (exc,)
            if elapsed > bound:
                kinds['too-long'] = 'transaction took %.2f virtual seconds, bound %.2f' % (elapsed, bound)
            if attempts > 1 + R:
                kinds['too-many-transmissions'] = 'request transmitted %d times with retries=%d' % (attempts, R)
            own_reply = P.conformant_reply(P.lazy_regfile(), m)
            own_exc = {'dir': RSP, 'fc': m['fc'] | 0x80, 'code': 2}
            stale = {'msg': {'dir': RSP, 'fc': 3, 'registers': [0xDEAD]}, 'tags': ['stale']}
            if exc is None:
                cls = classify_result(result, own_reply, stale, UNIT, None, framing)
                if cls.startswith('other') and classify_result(result, own_exc, None, UNIT, None, framing) == 'own':
                    cls = 'own-exception'
                run.count('result:%s' % cls.split(':')[0])
                sent_own = any(n in ('own', 'late', 'split') for n in consumed)
                sent_exc = 'exception' in consumed
                if cls == 'own' and not sent_own:
                    kinds['reply-from-nowhere'] = 'a normal reply was returned although the peer never sent one (script %r)' % (consumed,)
                elif cls == 'own-exception' and not sent_exc:
                    kinds['reply-from-nowhere'] = 'an exception reply was returned although the peer never sent one'
                elif cls == 'foreign':
                    kinds['foreign'] = 'the stale frame was returned as the answer'
                elif cls.startswith('other'):
                    kinds['not-a-result'] = 'returned %r' % (result,)
                    if (kind in ('tcp', 'rtu-over-tcp') and cls.endswith('Response') and len(consumed) >= 2
                            and any(n in ('partial', 'garbage', 'late') for n in consumed[:-1])):
                        # bytes an earlier ATTEMPT of this transaction left unread are glued to the next attempt's bytes (MBAP has no checksum)
                        regs.add('tcp-unread-reply-bytes-poison-next-transaction')
                        run.region('tcp-unread-reply-bytes-poison-next-transaction')
                        kinds['composite-of-unread-bytes'] = kinds.pop('not-a-result')
                if must_succeed(cfg, names) and cls not in ('own', 'own-exception'):
                    kinds['valid-reply-ignored'] = 'script %r with %r obliges the client to return the reply; it returned %r after %d transmissions' % (names, cfg, result, attempts)
        # healthy follow-up transaction
        if 'unbounded' not in kinds:
            pending = any(c.available() or c.rx for c in env.conns if not c.closed)
            dead = any(c.eof() and not c.closed for c in env.conns)      # peer closed, client still holds the socket
            m2 = {'dir': REQ, 'fc': 3, 'address': 4242, 'count': 2}
            gap = case.get('gap')
            if gap:
                # the application pauses between two calls: a fraction or a small multiple of the serial inter-frame interval
                env.clock.now += gap * (getattr(client, 'silent_interval', None) or 0.004)
            try:
                res2 = client.execute(A.build(m2, unit=UNIT))
                cls2 = classify_result(res2, P.conformant_reply(P.lazy_regfile(), m2), None, UNIT, None, framing)
            except IO.StepWatchdog as e:
                cls2 = 'unbounded'
            except Exception as e:  # noqa
                cls2 = 'raised:%s' % type(e).__name__
            run.count('followups')
            if cls2 != 'own':
                if pending and kind in ('tcp', 'rtu-over-tcp'):
                    regs.add('tcp-unread-reply-bytes-poison-next-transaction')
                    run.region('tcp-unread-reply-bytes-poison-next-transaction')
                    kinds['followup-poisoned'] = 'healthy follow-up returned %s (unread bytes of the faulty transaction were pending)' % cls2
                elif dead and cls2 == 'error' and kind in ('tcp', 'rtu-over-tcp'):
                    regs.add('tcp-peer-close-not-detected')
                    run.region('tcp-peer-close-not-detected')
                    kinds['followup-on-dead-socket'] = 'the peer had closed the connection; the client kept the dead socket and the next transaction failed'
                else:
                    kinds['followup-failed'] = 'after the fault script %r a healthy transaction returned %s' % (names, cls2)
            else:
                run.count('followups_ok')
    if not regs:
        run.count('clean_region_cases')
    if not kinds:
        return True
    excuse = set()
    notes = []
    if 'retries-zero-treated-as-one' in regs and attempts == 2 and 'too-many-transmissions' in kinds:
        excuse.add('too-many-transmissions')
        notes.append(('retries-zero-treated-as-one', 'retries=0 is treated as retries=1 (kwargs.get("retries") or 1): two transmissions'))
    if 'retry-on-empty-needs-retry-on-invalid' in regs and attempts == 1 and 'valid-reply-ignored' in kinds:
        excuse.add('valid-reply-ignored')
        notes.append(('retry-on-empty-needs-retry-on-invalid', 'retry_on_empty alone never retries: error after one transmission'))
    if 'ascii-client-raises-on-nonhex-reply' in regs and {'raised:ValueError', 'raised:Error'} & set(kinds):
        excuse |= {'raised:ValueError', 'raised:Error'}
        notes.append(('ascii-client-raises-on-nonhex-reply', 'ASCII client lets ValueError / binascii.Error escape execute() on a non-hex reply'))
    if 'tcp-reply-tid-unchecked' in regs and 'foreign' in kinds:
        excuse.add('foreign')
        notes.append(('tcp-reply-tid-unchecked', 'TCP client returns a reply carrying another transaction id'))
    if 'udp-retry-reads-header-first' in regs and attempts >= 2 and 'valid-reply-ignored' in kinds:
        excuse.add('valid-reply-ignored')
        notes.append(('udp-retry-reads-header-first', 'on a retry the UDP client reads 8 bytes of the datagram, loses the rest and times out'))
    if 'socket-short-header' in regs:
        hit = {'raised:InvalidMessageReceivedException', 'raised:error', 'raised:IndexError'} & set(kinds)
        if hit:
            excuse |= hit
            notes.append(('socket-short-header', 'a datagram shorter than an MBAP header is decoded as a raw PDU: InvalidMessageReceivedException / struct.error escapes execute()'))
    if 'socket-short-header' in regs and 'not-a-result' in kinds and 'ExceptionResponse' in kinds['not-a-result']:
        excuse.add('not-a-result')
        notes.append(('socket-short-header', 'a datagram shorter than an MBAP header whose first byte is >= 0x81 is decoded as an ExceptionResponse and returned'))
    if 'tcp-peer-close-not-detected' in regs and 'followup-on-dead-socket' in kinds:
        excuse.add('followup-on-dead-socket')
        notes.append(('tcp-peer-close-not-detected', 'TCP client ignores end-of-stream: it keeps the dead socket and the next transaction fails'))
    if 'tcp-unread-reply-bytes-poison-next-transaction' in regs and {'followup-poisoned', 'composite-of-unread-bytes'} & set(kinds):
        excuse |= {'followup-poisoned', 'composite-of-unread-bytes'}
        notes.append(('tcp-unread-reply-bytes-poison-next-transaction', 'unread bytes of an earlier reply break the next transaction'))
    left = set(kinds) - excuse
    if not left:
        for slug, what in notes:
            if slug in regs:
                run.known(slug, what, case)
        return False
    run.violation('%s:%s:%s' % (kind, '+'.join(sorted(left)), 'clean' if not regs else 'in-' + '+'.join(sorted(regs))), case,
                  '; '.join('%s: %s' % (k, kinds[k]) for k in sorted(left))[:900])
    return False


def configs():
    for R in (0, 1, 2, 3):
        for roe in (False, True):
            for roi in (False, True):
                yield {'retries': R, 'retry_on_empty': roe, 'retry_on_invalid': roi}


def run(run):
    r = run.rng('main')
    run.rule = ('case = (client kind, retries 0..3, retry_on_empty, retry_on_invalid, script = one transport behaviour per attempt from 11 behaviours, request type); '
                'scripts of length 1+retries are enumerated exhaustively up to a retries bound and sampled above it; each is followed by a healthy transaction; '
                'distinct = (kind, config, script, request); non-trivial = script contains a fault')
    run.assumptions = ['OS doubles in virtual time; a blocking read with no timeout and nothing to arrive is a step-watchdog hit', 'scripted reference server',
                       'bound = (2+retries) x 3 x timeout + backoff sum + 1 virtual seconds and 60000 transport operations']
    idx = 0
    exhaustive_R = 2
    for kind in KINDS:
        for cfg in configs():
            L = 1 + cfg['retries']
            if cfg['retries'] <= exhaustive_R or (run.thorough and cfg['retries'] == 3):
                scripts = itertools.product(BEHAVIOURS, repeat=L)
            else:
                scripts = (tuple(r.choice(BEHAVIOURS) for _ in range(L)) for _ in range(40 if not run.thorough else 600))
            for names in scripts:
                idx += 1
                if not run.mine(idx):
                    continue
                if run.nviol > 400:
                    break                 # the tree is clearly broken: more witnesses add nothing but run time
                m = REQUESTS[idx % len(REQUESTS)]
                if IO.framing_of(kind) == 'binary' and not binary_safe(m):
                    m = REQUESTS[idx % 3]           # (a binary frame with delimiter bytes in its body cannot be received: recorded finding, judged by C03/C08)
                warm = (idx // 3) % 2 == 1            # every second script meets a client that has already completed a transaction
                case = {'client': kind, 'cfg': cfg, 'script': list(names), 'm': m, 'bseed': idx, 'warm': warm}
                if idx % 5 == 2 and cfg['retries'] >= 1:
                    case['via_defaults'] = True          # (retries=0 through Defaults is the recorded `or 1` finding either way)
                if idx % 3 == 1:
                    case['gap'] = (0.5, 1.2, 1.5, 1.9, 2.5, 10.0)[(idx // 3) % 6]
                if idx % 7 == 4:
                    case['tid_start'] = 0xFFFF - (idx // 7) % 3
                    run.count('scripts_across_the_tid_wrap')
                ok = run_script(run, case)
                run.case(h64((kind, tuple(sorted(cfg.items())), names, m['fc'], warm, case.get('tid_start'))), any(n not in ('own',) for n in names),
                         sample={'client': kind, 'config': cfg, 'script': list(names), 'request_fc': m['fc'], 'warm_client': warm, 'verdict': 'bounded, result, recovered' if ok else 'differs'},
                         sample_class=(kind, cfg['retries'], warm, ok))
    # the UDP client's default configuration has no timeout at all
    if run.mine(0):
        udp_default_timeout(run)
        history_time_stability(run)
    run.exhaustive = False
    run.floor('scripts per client kind (min)', min(run.counters.get('scripts:%s' % k, 0) for k in KINDS), 600 if run.shard is None else 30)
    run.floor('healthy follow-up transactions that succeeded', run.counters.get('followups_ok', 0), 2000 if run.shard is None else 100)
    run.floor('clean-region scripts', run.counters.get('clean_region_cases', 0), 1500 if run.shard is None else 80)
    repo.reset_globals()


def history_time_stability(run):
    """one client object, the same retried transaction five times in a row (two replies from a foreign unit, then the right one;
    or two silent attempts, then the reply): with a deterministic peer every repetition takes the same virtual time and
    transmits the same number of frames - what an earlier transaction needed must not make a later one slower"""
    for kind in ('tcp', 'rtu', 'ascii', 'udp'):
        for names in (['wrong-unit', 'wrong-unit', 'own'], ['none', 'none', 'own'], ['none', 'own']):
            framing = IO.framing_of(kind)
            import random
            rr = random.Random(7)
            script = [behaviour(n, framing, rr) for _ in range(5) for n in names]
            peer = P.ScriptedPeer(framing, script=script, timeout=TIMEOUT)
            env = IO.Env(peer)
            repo.reset_globals()
            times, sent, results = [], [], []
            case = {'scenario': 'history-time', 'client': kind, 'script': names}
            with IO.installed(env):
                client = IO.make_client(kind, timeout=TIMEOUT, retries=3, retry_on_empty=True, retry_on_invalid=True)
                client.connect()
                for j in range(5):
                    t0, i0 = env.clock.now, peer.i
                    try:
                        res = client.execute(A.build({'dir': REQ, 'fc': 3, 'address': 100 + j, 'count': 2}, unit=UNIT))
                        results.append(type(res).__name__)
                    except IO.StepWatchdog as e:
                        results.append('STEP-WATCHDOG')
                    except Exception as e:  # noqa
                        results.append('raised %r' % (e,))
                    times.append(round(env.clock.now - t0, 3))
                    sent.append(peer.i - i0)
            run.count('history_time_runs')
            ok = max(times) <= times[0] * 1.05 + 0.05 and len(set(sent)) == 1
            run.case(h64(('history-time', kind, tuple(names))), True,
                     sample={'scenario': 'the same retried transaction five times on one client', 'client': kind, 'script': names, 'virtual_seconds': times, 'transmissions': sent,
                             'verdict': 'stable' if ok else 'grows'}, sample_class=('history-time', kind))
            if not ok:
                run.violation('%s:history-dependent-time' % kind, case,
                              'the same transaction (peer script %r) repeated on one client took %r virtual seconds with %r transmissions (results %r)' % (names, times, sent, results))


def udp_default_timeout(run):
    case = {'scenario': 'udp-default-timeout', 'client': 'udp', 'script': ['none']}
    peer = P.ScriptedPeer('tcp', script=[{'kind': 'none'}])
    env = IO.Env(peer)
    run.region('udp-client-default-timeout-none-blocks-forever')
    with IO.installed(env):
        import pymodbus.client.sync as cs
        client = cs.ModbusUdpClient('10.0.0.1', 502)          # default timeout
        client.connect()
        try:
            client.execute(A.build(REQUESTS[0], unit=UNIT))
            ok = True
        except IO.StepWatchdog:
            ok = False
        except Exception as e:  # noqa
            run.violation('udp-default:raised:%s' % type(e).__name__, case, repr(e))
            return
    run.case(h64('udp-default'), True, sample=dict(case, verdict='returned' if ok else 'blocks forever'), sample_class='udp-default')
    if not ok:
        run.known('udp-client-default-timeout-none-blocks-forever', 'ModbusUdpClient defaults to timeout=None: a lost datagram blocks execute() forever', case)


def replay(run, case):
    if case.get('scenario') == 'udp-default-timeout':
        udp_default_timeout(run)
        return
    if case.get('scenario') == 'history-time':
        history_time_stability(run)
        return
    print('ok' if run_script(run, case) else 'differs')
    run.evaluations += 1
