"""C18 - datastore blocks and contexts address exactly their cells.

Monitors: dictionary model in lock-step with random/exhaustive operation sequences on the real
blocks, slave contexts and server contexts; icontract frame conditions on the real
getValues/setValues (also under the repository's datastore tests in the thorough tier)."""
import itertools
import json
import os
import subprocess
import sys

from .. import repo  # noqa: F401
from .. import contracts
from ..core import h64, ROOT, OUT

from pymodbus.datastore import ModbusSequentialDataBlock, ModbusSparseDataBlock
from pymodbus.datastore import ModbusSlaveContext, ModbusServerContext
from pymodbus.exceptions import NoSuchSlaveException

LEVEL = 'exploration'
NEEDS_DEPS = True
SHARDS = {'thorough': 8}
ANCHORS = ['pymodbus/datastore/store.py', 'pymodbus/datastore/context.py', 'pymodbus/interfaces.py']

TABLE_OF_FX = {1: 'c', 5: 'c', 15: 'c', 2: 'd', 4: 'i', 3: 'h', 6: 'h', 16: 'h', 22: 'h', 23: 'h'}


# ------------------------------------------------------------------ model
class ModelBlock(object):
    def __init__(self, cells, default):
        self.cells = dict(cells)
        self.default = default

    def validate(self, a, c):
        return all((a + i) in self.cells for i in range(c))

    def get(self, a, c):
        return [self.cells[a + i] for i in range(c)]

    def set(self, a, vals):
        for i, v in enumerate(vals):
            self.cells[a + i] = v

    def reset(self):
        for k in self.cells:
            self.cells[k] = self.default


def make_block(spec):
    """spec: {'type': 'seq', 'start': s, 'values': [...]} or {'type': 'sparse', 'cells': {addr: v}}"""
    if spec['type'] == 'seq':
        vals = list(spec['values'])
        from ..servermodel import via_ctor
        real = ModbusSequentialDataBlock(spec['start'], via_ctor(list(vals), spec.get('ctor')))
        model = ModelBlock({spec['start'] + i: v for i, v in enumerate(vals)}, type(vals[0])())
    else:
        cells = {int(k): v for k, v in spec['cells'].items()}         # insertion order as given (not necessarily ascending)
        real = ModbusSparseDataBlock(dict(cells))
        model = ModelBlock(cells, type(next(iter(cells.values())))())
    return real, model


def dump(real):
    return dict(iter(real))


def apply_ops(run, spec, ops, case, tag):
    """run ops on a fresh real block and the model in lock-step; returns True if all agreed"""
    try:
        real, model = make_block(spec)
    except Exception as e:  # noqa
        run.violation('%s:ctor' % tag, case, 'constructor raised %r' % (e,))
        return False
    after_reset = False
    for i, op in enumerate(ops):
        kind = op[0]
        run.count('ops')
        try:
            if kind == 'validate':
                _, a, c = op
                got, want = bool(real.validate(a, c)), model.validate(a, c)
                run.count('comparisons')
                if got != want:
                    _fail(run, spec, case, tag, after_reset, 'validate', 'op %d validate(%d,%d) = %s, model %s' % (i, a, c, got, want))
                    return False
            elif kind == 'get':
                _, a, c = op
                if not model.validate(a, c):
                    continue
                res = real.getValues(a, c)
                got, want = list(res), model.get(a, c)
                run.count('comparisons')
                if got != want:
                    _fail(run, spec, case, tag, after_reset, 'get', 'op %d getValues(%d,%d) = %r, model %r' % (i, a, c, got, want))
                    return False
                if isinstance(res, list):
                    # what a read returns is the caller's: sorting it, popping from it, using it as a buffer must not reach into the block
                    for j in range(len(res)):
                        res[j] = (not res[j]) if isinstance(res[j], bool) else (res[j] ^ 0x155) & 0xFFFF
                    res.append(0)
                    del res[0]
                    run.count('read_results_overwritten')
                    if dump(real) != model.cells:
                        _fail(run, spec, case, tag, after_reset, 'get-result-aliased', 'op %d: the list returned by getValues(%d,%d) was overwritten by its caller: cells %r, model %r'
                              % (i, a, c, _d(dump(real)), _d(model.cells)))
                        return False
            elif kind == 'set':
                _, a, vals = op
                if not model.validate(a, len(vals)):
                    continue
                mine = list(vals)
                if len(mine) == 1 and ((i + a) % 3 == 0 or not mine[0]):
                    real.setValues(a, mine[0])          # a single value may be given bare (not wrapped in a list)
                else:
                    real.setValues(a, mine)
                model.set(a, vals)
                # the list handed to setValues stays the caller's: reusing it afterwards (as a buffer) must not reach into the block
                for j in range(len(mine)):
                    mine[j] = (not mine[j]) if isinstance(mine[j], bool) else (mine[j] ^ 0x2A5) & 0xFFFF
                mine.append(0)
                got = dump(real)
                run.count('comparisons')
                run.count('full_dumps')
                if got != model.cells:
                    _fail(run, spec, case, tag, after_reset, 'set', 'op %d setValues(%d,%r): cells %r, model %r' % (i, a, vals, _d(got), _d(model.cells)))
                    return False
            elif kind == 'reset':
                real.reset()
                model.reset()
                after_reset = True
                got = dump(real)
                run.count('comparisons')
                if got != model.cells:
                    _fail(run, spec, case, tag, after_reset, 'reset', 'op %d reset(): cells %r, model %r' % (i, _d(got), _d(model.cells)))
                    return False
        except Exception as e:  # noqa
            _fail(run, spec, case, tag, after_reset, kind + '-raised', 'op %d %r raised %r' % (i, op, e))
            return False
    return True


def _d(cells):
    r = repr(cells)
    return r if len(r) < 200 else r[:200] + '...'


def _fail(run, spec, case, tag, after_reset, step, msg):
    run.violation('%s:%s:%s%s' % (tag, spec['type'], step, ':after-reset' if after_reset else ''), case, msg)


# ------------------------------------------------------------------ workloads
def sweep_sequential(run):
    """exhaustive four-parameter sweep"""
    n = 0
    for start in (0, 1, 5, 65530):
        for size in range(1, 9):
            spec = {'type': 'seq', 'start': start, 'values': [100 + i for i in range(size)]}
            for a in range(start - 2, start + size + 3):
                for c in range(1, size + 4):
                    n += 1
                    if not run.mine(n):
                        continue
                    ops = [('validate', a, c), ('get', a, c), ('set', a, [7000 + i for i in range(c)]), ('get', a, c),
                           ('get', start, size), ('validate', a, c)]
                    case = {'kind': 'block', 'spec': spec, 'ops': ops}
                    ok = apply_ops(run, spec, ops, case, 'sweep')
                    run.case(h64(('seq', start, size, a, c)), True,
                             sample=dict(case, verdict='held' if ok else 'differs'), sample_class=('seq', start in (0, 1), a < start, a + c > start + size))


def sweep_sparse(run):
    """all subsets of an 8-address window"""
    n = 0
    for base in (0, 3, 65528):
        for mask in range(1, 256):
            keys = [base + i for i in range(8) if mask >> i & 1]
            if mask % 3 == 1:
                keys.reverse()                     # populated in descending address order
            elif mask % 3 == 2:
                keys = keys[1::2] + keys[0::2]     # interleaved insertion order
            spec = {'type': 'sparse', 'cells': {k: 200 + k % 50 for k in keys}}
            n += 1
            if not run.mine(n):
                continue
            ops = []
            for a in range(base - 1, base + 9):
                for c in (1, 2, 3, 8):
                    ops += [('validate', a, c), ('get', a, c), ('set', a, [9000 + a * 10 + i for i in range(c)]), ('get', a, c)]
            case = {'kind': 'block', 'spec': spec, 'ops': ops}
            ok = apply_ops(run, spec, ops, case, 'sweep')
            run.case(h64(('sparse', base, mask)), True, sample=dict(spec=spec, ops=ops[:8], verdict='held' if ok else 'differs'),
                     sample_class=('sparse', bin(mask).count('1') in (1, 8)))


def random_block_spec(r):
    if r.random() < 0.5:
        start = r.choice([0, 1, 2, 7, 100, 65000, 65535 - r.randint(0, 20)])
        size = r.choice([1, 2, 3, 8, 16, 64]) if r.random() < 0.8 else r.randint(1, 300)
        size = min(size, 65536 - start)
        boolean = r.random() < 0.4
        spec = {'type': 'seq', 'start': start, 'values': [(r.random() < 0.5) if boolean else r.randrange(65536) for _ in range(size)]}
        from ..servermodel import CTORS
        how = r.choice(CTORS)
        if how:
            spec['ctor'] = how       # initial values handed over as a tuple / generator / iterator / map object
        return spec
    base = r.choice([0, 1, 50, 65500])
    keys = sorted(set(base + r.randrange(0, 24) for _ in range(r.randint(1, 16))))
    if r.random() < 0.6:
        r.shuffle(keys)                            # dictionaries remember insertion order: address order must not depend on it
    boolean = r.random() < 0.4
    return {'type': 'sparse', 'cells': {k: (r.random() < 0.5) if boolean else r.randrange(65536) for k in keys}}


def random_ops(r, spec, n, with_reset):
    if spec['type'] == 'seq':
        lo, hi = spec['start'], spec['start'] + len(spec['values'])
    else:
        ks = sorted(int(k) for k in spec['cells'])
        lo, hi = ks[0], ks[-1] + 1
    ops, uniq = [], [1000]
    for _ in range(n):
        a = r.randint(lo - 2, hi + 1)
        c = r.choice([1, 1, 2, 3, hi - lo, hi - lo + 1, r.randint(1, max(1, hi - lo + 2))])
        c = max(1, min(c, 400))
        x = r.random()
        if x < 0.3:
            ops.append(('validate', a, c))
        elif x < 0.55:
            ops.append(('get', a, c))
        elif x < 0.95 or not with_reset:
            vals = []
            for _ in range(c):
                uniq[0] += 1
                vals.append(uniq[0] % 65536)
            if c == 1 and r.random() < 0.35:
                vals = [r.choice([0, False])]          # zero / OFF are values like any other (also when given as a bare scalar)
            ops.append(('set', a, vals))
        else:
            ops.append(('reset',))
    ops.append(('get', lo, hi - lo))
    return ops


def random_sequences(run, r):
    n = run.scale(2500, 800000)
    for i in range(n):
        spec = random_block_spec(r)
        ops = random_ops(r, spec, 60, with_reset=True)
        case = {'kind': 'block', 'spec': spec, 'ops': ops}
        ok = apply_ops(run, spec, ops, case, 'seq')
        run.case(h64(repr(case)), True, sample=dict(spec=spec if len(repr(spec)) < 300 else spec['type'], ops=ops[:6], verdict='held' if ok else 'differs'),
                 sample_class=('rand', spec['type'], any(o[0] == 'reset' for o in ops)))


# ---- slave context
def slave_context_case(run, case):
    zero, layout, ops = case['zero_mode'], case['layout'], case['ops']
    blocks, models = {}, {}
    for t in 'dcih':
        blocks[t], models[t] = make_block(layout[t])
    from pymodbus.constants import Defaults
    old_default = Defaults.ZeroMode
    how = case.get('config', 'keyword')
    try:
        if how == 'default-only':
            Defaults.ZeroMode = zero            # the process-wide default alone decides
            ctx = ModbusSlaveContext(di=blocks['d'], co=blocks['c'], ir=blocks['i'], hr=blocks['h'])
        elif how == 'keyword-against-default':
            Defaults.ZeroMode = not zero        # the explicit keyword has to win over an opposite process-wide default
            ctx = ModbusSlaveContext(di=blocks['d'], co=blocks['c'], ir=blocks['i'], hr=blocks['h'], zero_mode=zero)
        elif how == 'truthy-int':
            ctx = ModbusSlaveContext(di=blocks['d'], co=blocks['c'], ir=blocks['i'], hr=blocks['h'], zero_mode=1 if zero else 0)
        elif how == 'attribute-late':
            ctx = ModbusSlaveContext(di=blocks['d'], co=blocks['c'], ir=blocks['i'], hr=blocks['h'], zero_mode=not zero)
            ctx.zero_mode = zero                # the public attribute set after construction decides from then on
        else:
            ctx = ModbusSlaveContext(di=blocks['d'], co=blocks['c'], ir=blocks['i'], hr=blocks['h'], zero_mode=zero)
    finally:
        Defaults.ZeroMode = old_default
    off = 0 if zero else 1
    for i, op in enumerate(ops):
        kind, fx, a = op[0], op[1], op[2]
        t = TABLE_OF_FX[fx]
        m = models[t]
        run.count('ops')
        try:
            if kind == 'validate':
                c = op[3]
                got, want = bool(ctx.validate(fx, a, c)), m.validate(a + off, c)
                run.count('comparisons')
                if got != want:
                    run.violation('context:validate:zero=%s' % zero, case, 'op %d validate(fx=%d,%d,%d)=%s, model %s' % (i, fx, a, c, got, want))
                    return False
            elif kind == 'get':
                c = op[3]
                if not m.validate(a + off, c):
                    continue
                got, want = list(ctx.getValues(fx, a, c)), m.get(a + off, c)
                run.count('comparisons')
                if got != want:
                    run.violation('context:get:zero=%s' % zero, case, 'op %d getValues(fx=%d,%d,%d)=%r, model %r' % (i, fx, a, c, got, want))
                    return False
            elif kind == 'set':
                vals = op[3]
                if not m.validate(a + off, len(vals)):
                    continue
                ctx.setValues(fx, a, list(vals))
                m.set(a + off, vals)
                run.count('comparisons')
                run.count('full_dumps')
                for tt in 'dcih':
                    if dump(blocks[tt]) != models[tt].cells:
                        run.violation('context:set:table-%s-vs-%s:zero=%s' % (tt, t, zero), case,
                                      'op %d setValues(fx=%d,%d,%r): table %s is %s, model %s' % (i, fx, a, vals, tt, _d(dump(blocks[tt])), _d(models[tt].cells)))
                        return False
        except Exception as e:  # noqa
            run.violation('context:%s-raised' % kind, case, 'op %d %r raised %r' % (i, op, e))
            return False
    return True


def slave_contexts(run, r):
    n = run.scale(1500, 240000)
    for i in range(n):
        layout = {}
        for t in 'dcih':
            spec = random_block_spec(r)
            # bits tables hold booleans, register tables words: keep like with like
            layout[t] = spec
        zero = bool(i % 2)
        ops = []
        uniq = 5000
        for _ in range(40):
            fx = r.choice(sorted(TABLE_OF_FX))
            spec = layout[TABLE_OF_FX[fx]]
            lo = spec['start'] if spec['type'] == 'seq' else min(int(k) for k in spec['cells'])
            hi = lo + (len(spec['values']) if spec['type'] == 'seq' else 24)
            a = r.randint(max(-1, lo - 3), hi + 1)
            if r.random() < 0.12:
                a = r.choice([0, 1, 65533, 65534, 65535])        # both ends of the 16-bit wire address space, wherever the block lies
            c = r.choice([1, 1, 2, 3, 5])
            x = r.random()
            if x < 0.35:
                ops.append(('validate', fx, a, c))
            elif x < 0.6:
                ops.append(('get', fx, a, c))
            else:
                uniq += c
                ops.append(('set', fx, a, [(uniq + j) % 65536 for j in range(c)]))
        case = {'kind': 'slave', 'zero_mode': zero, 'layout': layout, 'ops': ops, 'config': ('keyword', 'truthy-int', 'default-only', 'keyword-against-default', 'keyword', 'attribute-late')[(i // 2) % 6]}
        ok = slave_context_case(run, case)
        run.case(h64(repr(case)), True, sample={'kind': 'slave', 'zero_mode': zero, 'ops': ops[:5], 'verdict': 'held' if ok else 'differs'},
                 sample_class=('slave', zero))


def defaulted_contexts(run, r):
    """slave contexts constructed with only some tables (the others get the library's default block): every context owns its
    cells - a write through one context never shows through another, and a reset of one leaves the other alone"""
    from pymodbus.datastore import ModbusSequentialDataBlock
    names = {'d': 'di', 'c': 'co', 'i': 'ir', 'h': 'hr'}
    fx_of = {'d': 2, 'c': 1, 'i': 4, 'h': 3}
    for i in range(run.scale(12, 400)):
        zero = bool(i % 2)
        ctxs, given = [], []
        for k in range(2 + i % 2):
            g = [t for t in 'dcih' if r.random() < 0.4]
            kw = {names[t]: ModbusSequentialDataBlock(0, [False if t in 'dc' else 0] * 64) for t in g}
            ctxs.append(ModbusSlaveContext(zero_mode=zero, **kw))
            given.append(g)
        case = {'kind': 'defaulted-contexts', 'zero_mode': zero, 'given': given}
        run.count('defaulted_context_cases')
        bad = None
        for a in range(len(ctxs)):
            for t in 'dcih':
                addr = r.randrange(0, 60)
                val = [True] if t in 'dc' else [0x1234 + a]
                before = [list(c.getValues(fx_of[t], addr, 1)) for c in ctxs]
                ctxs[a].setValues(fx_of[t], addr, val)
                run.count('comparisons')
                for b in range(len(ctxs)):
                    now = list(ctxs[b].getValues(fx_of[t], addr, 1))
                    want = val if b == a else before[b]
                    if [bool(x) if t in 'dc' else x for x in now] != [bool(x) if t in 'dc' else x for x in want]:
                        bad = 'write of %r to table %s address %d through context %d: context %d now reads %r (tables given: %r)' % (val, t, addr, a, b, now, given)
                for tt in 'dcih':
                    if tt != t and t not in given[a] and tt not in given[a] and not (t in 'dc') == (tt in 'dc'):
                        pass
        run.case(h64(repr(case) + str(i)), True, sample={'kind': 'defaulted contexts', 'zero_mode': zero, 'tables_given': given, 'verdict': 'held' if not bad else 'differs'},
                 sample_class=('defaulted-contexts',))
        if bad:
            run.violation('context:defaulted-tables-shared', case, bad)


# ---- server context
class Token(object):
    def __init__(self, n):
        self.n = n

    def __repr__(self):
        return 'ctx%d' % self.n


def server_context_case(run, case):
    single, ops = case['single'], case['ops']
    toks = {}

    def tok(n):
        return toks.setdefault(n, Token(n))
    if single:
        real = ModbusServerContext(slaves=tok(0), single=True)
        model = {'single': tok(0)}
    else:
        init = {int(k): tok(v) for k, v in case['initial'].items()}
        # a second multi-unit context of the process, built (like the first when it starts empty) without the slaves argument:
        # the two have nothing in common
        twin = ModbusServerContext(single=False)
        if case.get('table') == 'defaultdict':
            # the application keeps its units in a dict subclass with a default (collections.defaultdict): what is hosted is still
            # what was registered, asking for another id creates nothing
            import collections
            real = ModbusServerContext(slaves=collections.defaultdict(lambda: Token(-1), init), single=False)
        else:
            real = ModbusServerContext(slaves=dict(init), single=False) if init else ModbusServerContext(single=False)
        model = dict(init)
    for i, op in enumerate(ops):
        kind, uid = op[0], op[1]
        run.count('ops')
        run.count('comparisons')
        why = None
        try:
            if kind == 'get':
                try:
                    got = real[uid]
                    exc = None
                except Exception as e:  # noqa
                    got, exc = None, e
                if single:
                    if exc is not None or got is not model['single']:
                        why = 'single mode: context[%r] gave %r / %r' % (uid, got, exc)
                elif uid in model:
                    if exc is not None or got is not model[uid]:
                        why = 'multi mode: context[%r] gave %r / %r, registered %r' % (uid, got, exc, model[uid])
                elif not isinstance(exc, NoSuchSlaveException):
                    why = 'multi mode: context[%r] for an unregistered id gave %r / %r (NoSuchSlaveException expected)' % (uid, got, exc)
            elif kind == 'contains':
                got = uid in real
                want = True if single else uid in model
                if bool(got) != want:
                    why = '%r in context = %s, model %s' % (uid, got, want)
            elif kind == 'set':
                t = tok(op[2])
                try:
                    real[uid] = t
                    exc = None
                except Exception as e:  # noqa
                    exc = e
                if single:
                    if exc is None:
                        model['single'] = t
                    # nothing demanded about refusing in single mode
                elif 0 <= uid <= 247:
                    if exc is not None:
                        why = 'registration of id %r refused with %r' % (uid, exc)
                    model[uid] = t
                else:
                    if exc is None:
                        why = 'registration of id %r outside 0..247 was accepted' % (uid,)
                    elif not isinstance(exc, NoSuchSlaveException):
                        why = 'registration of id %r refused with %r (NoSuchSlaveException expected)' % (uid, exc)
            elif kind == 'del':
                if single or uid not in model:
                    try:
                        del real[uid]
                    except Exception:  # noqa  (deleting an absent id / in single mode may raise anything)
                        pass
                    # single mode: deletion must not remove the only context
                    continue
                try:
                    del real[uid]
                except Exception as e:  # noqa
                    why = 'deleting registered id %r raised %r' % (uid, e)
                model.pop(uid, None)
        except Exception as e:  # noqa
            why = 'op %r raised %r' % (op, e)
        if why:
            run.violation('server-context:%s:%s' % ('single' if single else 'multi', kind), case, 'op %d: %s' % (i, why))
            return False
    # final sweep over every id
    for uid in list(range(-1, 258)) + [0xFFFF]:
        run.count('comparisons')
        try:
            got, exc = real[uid], None
        except Exception as e:  # noqa
            got, exc = None, e
        if single:
            bad = exc is not None or got is not model['single']
        elif uid in model:
            bad = exc is not None or got is not model[uid]
        else:
            bad = not isinstance(exc, NoSuchSlaveException)
        if bad:
            run.violation('server-context:%s:final-routing' % ('single' if single else 'multi'), case,
                          'after the sequence context[%r] gave %r / %r' % (uid, got, exc))
            return False
    if not single:
        run.count('comparisons')
        leaked = [u for u in range(0, 256) if u in twin]
        if leaked or list(twin.slaves()):
            run.violation('server-context:multi:second-context-shares-units', case,
                          'a second ModbusServerContext(single=False) of the process, never written to, hosts units %r after this sequence' % (leaked or list(twin.slaves()),))
            return False
    return True


def server_contexts(run, r):
    ids = list(range(-1, 258)) + [300, 0xFFFF]
    n = run.scale(1500, 160000)
    for i in range(n):
        single = i % 3 == 0
        initial = {} if single else {r.choice([0, 1, 2, 17, 100, 246, 247]): j + 1 for j in range(r.randint(0, 3))}
        ops = []
        for j in range(40):
            uid = r.choice(ids) if r.random() < 0.6 else r.choice([0, 1, 247, 248, 255, 256, -1])
            kind = r.choice(['get', 'get', 'contains', 'set', 'del'])
            ops.append((kind, uid, 100 + j) if kind == 'set' else (kind, uid))
        case = {'kind': 'server', 'single': single, 'initial': initial, 'ops': ops}
        if not single and initial and i % 5 == 2:
            case['table'] = 'defaultdict'
        ok = server_context_case(run, case)
        run.case(h64(repr(case)), True, sample=dict(case, ops=ops[:8], verdict='held' if ok else 'differs'),
                 sample_class=('server', single))


def run(run):
    r = run.rng('main')
    contracts.install_datastore()
    run.rule = ('case = (block layout, operation sequence) or (slave context layout, zero-mode, ops) or (server context mode, ops); '
                'every result and a full cell dump after every write compared with a dictionary model; distinct = (layout, ops); '
                'all cases non-trivial (each contains at least one accepted and one boundary-crossing range by construction of the sweeps)')
    run.assumptions = ['dictionary model in vmon/props/c18.py', 'only accepted ranges are read/written (nothing is demanded for rejected ranges)']
    sweep_sequential(run)
    sweep_sparse(run)
    random_sequences(run, r)
    slave_contexts(run, r)
    if run.shard in (None, 0):
        defaulted_contexts(run, r)
    server_contexts(run, r)
    st = contracts.datastore_stats()
    run.observed['contract_evaluations'] = st['evaluations']
    for name, fires in st['fired'].items():
        run.violation('contract-frame:%s' % name, {'kind': 'contract', 'name': name, 'what': fires[0]}, 'frame condition broken in %s: %s' % (name, fires[0]))
    run.floor('comparisons', run.counters.get('comparisons', 0), 20000 if run.shard is None else 1000)
    run.floor('full cell dumps compared', run.counters.get('full_dumps', 0), 1000 if run.shard is None else 100)
    run.floor('frame-condition contract evaluations', st['evaluations_total'], 1000 if run.shard is None else 100)
    if run.thorough and run.shard in (None, 0):
        suite_with_contracts(run)
    run.exhaustive = False


def suite_with_contracts(run):
    outf = os.path.join(OUT, 'contracts-ds-%d.json' % os.getpid())
    os.makedirs(OUT, exist_ok=True)
    env = dict(os.environ, PYTHONPATH=os.pathsep.join([ROOT, os.path.join(ROOT, '.deps')]), VMON_CONTRACT_OUT=outf)
    cmd = [sys.executable, '-m', 'pytest', '-q', '-p', 'no:cacheprovider', '-p', 'vmon.pytest_contracts', '--timeout=600',
           'test/test_datastore.py', 'test/test_server_context.py', 'test/test_bit_write_messages.py', 'test/test_register_write_messages.py',
           '-k', 'not Sql and not Redis']
    try:
        p = subprocess.run(cmd, cwd=repo.REPO, env=env, stdout=subprocess.PIPE, stderr=subprocess.STDOUT, timeout=600)
    except subprocess.TimeoutExpired:
        run.inconclusive_reason('contracts-on datastore tests timed out')
        return
    if not os.path.exists(outf):
        run.inconclusive_reason('contracts-on datastore tests wrote no result: ' + p.stdout.decode(errors='replace')[-300:])
        return
    res = json.load(open(outf))['datastore']
    os.unlink(outf)
    run.observed['suite_contract_evaluations'] = res['evaluations']
    for name, fires in res['fired'].items():
        run.violation('contract-frame-under-suite:%s' % name, {'kind': 'contract', 'name': name, 'what': fires[0]},
                      'under the repository tests: %s' % fires[0])


def replay(run, case):
    contracts.install_datastore()
    k = case.get('kind')
    if k == 'block':
        ops = [tuple(o) for o in case['ops']]
        print('held' if apply_ops(run, case['spec'], ops, case, 'replay') else 'differs')
    elif k == 'slave':
        case['ops'] = [tuple(o) for o in case['ops']]
        print('held' if slave_context_case(run, case) else 'differs')
    elif k == 'server':
        case['ops'] = [tuple(o) for o in case['ops']]
        print('held' if server_context_case(run, case) else 'differs')
    elif k == 'defaulted-contexts':
        defaulted_contexts(run, run.rng('main'))
    else:
        run.violation('contract', case, 'recorded contract firing; re-run the check')
    run.evaluations += 1
