"""C06 - framing is independent of how the byte stream is chunked.

Metamorphic monitor: the deliveries of a fresh receiver under a chunking K of a stream of
valid frames (built by the reference ADU builder) are compared with the deliveries of a
fresh receiver of the same class under one-frame-per-call; any exception leaving the
receive call is recorded.  Known-finding regions are decided from the generator's own frame
offsets (input predicates), never from pymodbus state."""
import itertools
import struct

from .. import adapters as A
from .. import gen
from ..core import h64
from ..spec import pdu as S
from ..spec import adu as ADU
from ..spec.pdu import REQ, RSP
from .c03 import new_framer, ANCHORS  # noqa: F401
from .c01 import kind_of

LEVEL = 'exploration'
SHARDS = {'thorough': 16}
FRAMINGS = ('tcp', 'rtu', 'ascii', 'binary')

# message kinds whose whole-frame round trip is itself a finding (C01-C03) are not used in streams
BAD_KINDS = {'rsp/24', 'rsp/20', 'rsp/17'}


def usable(framing, m, uid, frame):
    k = kind_of(m)
    if k in BAD_KINDS:
        return False
    if m['fc'] == 8 and len(m['data']) != 1:
        return False
    if framing == 'binary' and any(b in (0x7B, 0x7D) for b in frame[1:-1]):
        return False
    return True


def dkey(framing, o):
    try:
        f = S.norm(A.extract(o))
    except Exception as e:  # noqa
        f = ('unreadable', type(e).__name__)
    key = (type(o).__name__, tuple(sorted((k, repr(v)) for k, v in f.items())) if isinstance(f, dict) else f, o.unit_id)
    if framing == 'tcp':
        key += (o.transaction_id, o.protocol_id)
    return key


def feed(framing, d, chunks, units, single, recycle=False):
    """recycle: the caller reads into ONE bytearray (recv_into style) and hands that same object to the framer for every chunk -
    after a call returns, the buffer belongs to the caller again and is overwritten by the next read"""
    fr = new_framer(framing, d)
    out, excs = [], []
    buf = bytearray()
    for c in chunks:
        try:
            if recycle:
                try:
                    buf[:] = c
                except BufferError:          # somebody still holds a view of the caller's buffer
                    buf = bytearray(c)
                fr.processIncomingPacket(buf, out.append, units, single=single)
            else:
                fr.processIncomingPacket(c, out.append, units, single=single)
        except Exception as e:  # noqa
            excs.append(e)
    return [dkey(framing, o) for o in out], excs, out


def is_subsequence(a, b):
    it = iter(b)
    return all(x in it for x in a)


def regions(framing, bounds, cuts, n):
    """input predicates: bounds = frame end offsets, cuts = sorted cut offsets (call boundaries).
    Returns (set of slugs, offset at which the first offending call starts or None)."""
    out = set()
    ends = set(bounds)
    starts = [0] + list(bounds[:-1])
    calls = sorted(set(cuts)) + [n]
    first_bad = None
    prev = 0
    for c in calls:
        bad = False
        if c not in ends and c != 0 and c != n:
            fs = max(s for s in starts if s <= c)
            pend = c - fs
            if framing == 'tcp':
                out.add('socket-short-header' if pend <= 7 else 'socket-split-frame')
                bad = True
            elif framing == 'rtu':
                out.add('rtu-split-frame')
                bad = True
            elif framing == 'binary':
                out.add('binary-split-frame')
                bad = True
        if framing in ('rtu', 'binary'):
            k = sum(1 for e in bounds if prev < e <= c)
            # two frame ends in one call, or a completed frame followed by the head of the next one
            if k >= 2 or (k >= 1 and c not in ends):
                out.add('rtu-one-frame-per-call' if framing == 'rtu' else 'binary-pipelined-frame-skipped')
                bad = True
        if bad and first_bad is None:
            first_bad = prev
        prev = c
    return out, first_bad


TCP_DESYNC = {'lost', 'extra-after-desync', 'exc:InvalidMessageReceivedException', 'exc:error', 'exc:ModbusIOException', 'exc:IndexError'}
EXCUSES = {
    'socket-split-frame': TCP_DESYNC,
    'socket-short-header': TCP_DESYNC,
    'rtu-split-frame': {'lost', 'exc:ModbusIOException', 'justified-misaligned-delivery'},
    'rtu-one-frame-per-call': {'lost'},
    'binary-split-frame': {'lost'},
    'binary-pipelined-frame-skipped': {'lost'},
}
WHAT = {
    'socket-split-frame': 'TCP framer drops a frame that is split across reads with >= 8 bytes pending and loses sync',
    'socket-short-header': 'TCP framer decodes/raises on a pending fragment of < 8 bytes',
    'rtu-split-frame': 'RTU framer discards a frame that is split across reads',
    'rtu-one-frame-per-call': 'RTU framer delivers at most one frame per receive call',
    'binary-split-frame': 'binary framer resets away a partial frame',
    'binary-pipelined-frame-skipped': 'binary framer skips every second back-to-back frame',
}


def check(run, case):
    framing, d, msgs, cuts = case['framing'], case['dir'], case['msgs'], case['cuts']
    frames = []
    for m, uid, tid in msgs:
        frames.append(ADU.build(framing, uid, S.encode(m), tid=tid))
    stream = b''.join(frames)
    bounds = list(itertools.accumulate(len(f) for f in frames))
    units = sorted(set(uid for _, uid, _ in msgs))
    single = case.get('single', True)
    base, bexc, _ = feed(framing, d, frames, units, single)
    if bexc or len(base) != len(frames):
        run.count('skipped_baseline_not_clean')
        return None
    pts = [0] + list(cuts) + [len(stream)]
    chunks = [stream[a:b] for a, b in zip(pts, pts[1:])]
    got, excs, objs = feed(framing, d, chunks, units, single, recycle=bool(case.get('recycle')))
    regs, first_bad = regions(framing, bounds, cuts, len(stream))
    for slug in regs:
        run.region(slug)
    run.count('chunkings:%s' % framing)
    run.count('chunks_fed', len(chunks))
    run.count('deliveries', len(got))
    if not regs:
        run.count('clean_region_cases')
        if any(c not in bounds for c in cuts):
            run.count('clean_cases_with_cut_inside_frame')
        if any(sum(1 for e in bounds if a < e <= b) >= 2 for a, b in zip(pts, pts[1:])):
            run.count('clean_cases_with_multi_frame_chunk')
    kinds = set()
    if got != base:
        if is_subsequence(got, base):
            kinds.add('lost')
        else:
            extra = [o for o, k in zip(objs, got) if k not in base]
            if extra and framing == 'rtu' and all(_justified(framing, d, stream, o, bounds) for o in extra):
                kinds.add('justified-misaligned-delivery')
            elif framing == 'tcp' and regs:
                kinds.add('extra-after-desync')
            else:
                kinds.add('extra-or-reordered')
    if regs and first_bad is not None:
        # frames that ended before the first offending call began must have been delivered, first and in order
        npre = sum(1 for e in bounds if e <= first_bad)
        if got[:npre] != base[:npre]:
            kinds.add('prefix-before-first-offending-call-wrong')
    for e in excs:
        kinds.add('exc:' + type(e).__name__)
    if not kinds:
        return True
    allowed = set()
    for slug in regs:
        allowed |= EXCUSES[slug]
    if kinds <= allowed and regs:
        for slug in sorted(regs):
            if kinds & EXCUSES[slug]:
                run.known(slug, WHAT[slug], case)
        return False
    run.violation('%s:%s:%s' % (framing, '+'.join(sorted(kinds - allowed)), 'clean' if not regs else 'in-' + '+'.join(sorted(regs))), case,
                  '%s/%s stream of %d frames (%d bytes) cuts %r: frame-per-call delivered %d, this chunking %d, exceptions %r'
                  % (framing, d, len(frames), len(stream), cuts[:20], len(base), len(got), [repr(e)[:80] for e in excs[:3]]))
    return False


def _justified(framing, d, stream, o, bounds):
    """the delivered message is an integrity-valid frame at some offset of the stream (C07's notion)"""
    from .c07 import same_msg
    for f in ADU.candidates(framing, d, stream, loose=True):
        if f.unit == o.unit_id and same_msg(o, f.msg):
            return True
    return False


# ------------------------------------------------------------------ workload
def gen_stream(r, framing, d, nframes, small=True):
    msgs = []
    tries = 0
    while len(msgs) < nframes and tries < 200:
        tries += 1
        dd, fc, sub = r.choice([k for k in gen.KINDS if k[0] == d])
        m = gen.message(r, dd, fc, sub, small=small)
        uid = r.choice([1, 2, 17, 247, r.randrange(1, 248)])
        tid = r.randrange(65536)
        try:
            pdu = S.encode(m)
        except S.SpecError:
            continue
        if len(pdu) > 253:
            continue
        frame = ADU.build(framing, uid, pdu, tid=tid)
        if usable(framing, m, uid, frame):
            msgs.append((m, uid, tid))
    return msgs


def stream_len(framing, msgs):
    return sum(len(ADU.build(framing, uid, S.encode(m), tid=tid)) for m, uid, tid in msgs)


def chunkings(r, n, bounds, budget):
    """a varied set of cut lists for a stream of n bytes"""
    out = []
    out.append([])                                       # everything in one call
    out.append(list(range(1, n)))                        # byte-wise
    out.append([b for b in bounds[:-1]])                 # frame per call (identity)
    for k in (2, 3):
        out.append([b for i, b in enumerate(bounds[:-1]) if (i + 1) % k == 0])   # k frames per call
    for c in range(1, n):                                # every single cut
        out.append([c])
    if n <= 24:
        for a in range(1, n):
            for b in range(a + 1, n):
                out.append([a, b])
    # empty reads anywhere
    for _ in range(4):
        cuts = sorted(r.sample(range(1, n), min(n - 1, r.randint(0, 3)))) if n > 1 else []
        pos = r.choice([0] + cuts + [n]) if True else 0
        cuts = sorted(cuts + [pos] * r.randint(1, 2))
        out.append([c for c in cuts])
    # frame-aligned with empties
    out.append(sorted(list(bounds[:-1]) + list(bounds[:-1])))
    while len(out) < budget:
        k = r.randint(1, min(n - 1, 8)) if n > 1 else 0
        out.append(sorted(r.sample(range(1, n), k)) if k else [])
    r.shuffle(out)
    return out[:budget] if budget < len(out) else out


def run(run):
    r = run.rng('main')
    run.rule = ('case = (framing, decoder direction, stream of 1..5 valid frames, chunking = sorted cut offsets incl. repeated offsets for empty reads); '
                'deliveries compared with the frame-per-call run of a fresh receiver; distinct = (framing, direction, stream bytes, cuts); '
                'non-trivial = a cut strictly inside a frame or a chunk holding more than one frame end')
    run.assumptions = ['reference ADU builder builds the streams', 'frame-per-call run of the same framer class as differential baseline (cases whose baseline is not clean belong to C03 and are skipped)']
    nstreams = run.scale(90, 8000)
    for framing in FRAMINGS:
        for d in (REQ, RSP):
            for i in range(nstreams):
                nfr = r.choice([1, 2, 2, 3, 3, 4, 5])
                msgs = gen_stream(r, framing, d, nfr, small=(i % 5 != 0))
                if not msgs:
                    continue
                n = stream_len(framing, msgs)
                bounds = list(itertools.accumulate(len(ADU.build(framing, uid, S.encode(m), tid=tid)) for m, uid, tid in msgs))
                for cuts in chunkings(r, n, bounds, 90 if not run.thorough else 160):
                    one(run, framing, d, msgs, cuts, bounds, n, single=(i % 3 != 0))
    exhaustive(run, r)
    run.floor('clean-region chunkings with a cut strictly inside a frame', run.counters.get('clean_cases_with_cut_inside_frame', 0), 1000 if run.shard is None else 50)
    run.floor('clean-region chunkings with a multi-frame chunk', run.counters.get('clean_cases_with_multi_frame_chunk', 0), 300 if run.shard is None else 10)
    run.floor('chunkings per framing (min)', min(run.counters.get('chunkings:%s' % f, 0) for f in FRAMINGS), 2000 if run.shard is None else 100)


def one(run, framing, d, msgs, cuts, bounds, n, single=True, sample_class=None):
    case = {'framing': framing, 'dir': d, 'msgs': msgs, 'cuts': list(cuts), 'single': single}
    if (len(cuts) + len(msgs)) % 4 == 1:
        case['recycle'] = True            # the chunks arrive in one bytearray the caller reuses for every read
        run.count('recycled_buffer_chunkings')
    res = check(run, case)
    if res is None:
        return
    nontrivial = any(c not in bounds for c in cuts) or any(sum(1 for e in bounds if a < e <= b) >= 2 for a, b in zip([0] + list(cuts), list(cuts) + [n]))
    run.case(h64((framing, d, repr(msgs), tuple(cuts), single)), nontrivial,
             sample={'framing': framing, 'direction': d, 'frames': len(msgs), 'stream_bytes': n, 'frame_ends': bounds, 'cuts': list(cuts)[:30],
                     'verdict': {True: 'same deliveries', False: 'differs'}[res]},
             sample_class=sample_class or (framing, res, nontrivial))


def exhaustive(run, r):
    """all 2^(n-1) chunkings of short streams"""
    limit = {'tcp': 16 if run.thorough else 12, 'rtu': 16 if run.thorough else 13, 'binary': 16 if run.thorough else 13,
             'ascii': 18 if run.thorough else 11}
    idx = 0
    for framing in FRAMINGS:
        for d in (REQ, RSP):
            # the shortest messages: requests without data (FC7/11/12/17) and their small responses
            pool = [k for k in gen.KINDS if k[0] == d and k[1] in ((7, 11, 12, 17, 24) if d == REQ else (7,))]
            pool = pool or [k for k in gen.KINDS if k[0] == d]
            for nfr in (1, 2, 3):
                for attempt in range(6):
                    msgs = []
                    for _ in range(nfr):
                        dd, fc, sub = r.choice(pool)
                        m = gen.message(r, dd, fc, sub, small=True)
                        msgs.append((m, r.choice([1, 2, 17]), r.randrange(65536)))
                    n = stream_len(framing, msgs)
                    if n <= limit[framing] and all(usable(framing, m, uid, ADU.build(framing, uid, S.encode(m), tid=tid)) for m, uid, tid in msgs):
                        break
                else:
                    continue
                bounds = list(itertools.accumulate(len(ADU.build(framing, uid, S.encode(m), tid=tid)) for m, uid, tid in msgs))
                for mask in range(1 << (n - 1)):
                    idx += 1
                    if not run.mine(idx):
                        continue
                    cuts = [i + 1 for i in range(n - 1) if mask >> i & 1]
                    one(run, framing, d, msgs, cuts, bounds, n, sample_class=('exhaustive', framing, nfr))
                run.count('exhaustive_streams')


def replay(run, case):
    case['msgs'] = [(m, uid, tid) for m, uid, tid in case['msgs']]
    for m, _, _ in case['msgs']:
        if 'records' in m:
            m['records'] = [tuple(x) if isinstance(x, list) else x for x in m['records']]
        if 'objects' in m:
            m['objects'] = [tuple(x) for x in m['objects']]
    res = check(run, case)
    print({True: 'same deliveries', False: 'differs', None: 'baseline not clean (C03)'}[res])
    run.evaluations += 1
