"""C17 - all server front-ends are behaviourally interchangeable.

Differential monitor: the same initial store and the same per-connection request bytes go
through every front-end of a kind (stream: sync TCP, sync serial, asyncio TCP, Twisted TCP;
datagram: sync UDP, asyncio UDP, Twisted UDP); the response byte streams must be identical
to each other (and, in the clean region, to the reference model's) and the final stores must
agree.  Connection isolation: 1..3 connections whose chunks are interleaved (sync handlers are
real threads gated at recv by the deterministic scheduler) must each produce exactly the
output they produce alone."""
import copy
import itertools

from .. import frontends as FE
from .. import gen
from .. import repo
from .. import serverhist as SH
from .. import servermodel as SM
from ..core import h64
from ..spec import adu as ADU
from ..spec import pdu as S
from ..spec.pdu import REQ, RSP

LEVEL = 'exploration'
SHARDS = {'thorough': 16}
ANCHORS = ['pymodbus/server/sync.py', 'pymodbus/server/async_io.py', 'pymodbus/server/asynchronous.py']
STREAM_FRONTS = ['sync-tcp', 'aio-tcp', 'tw-tcp', 'sync-serial']
DGRAM_FRONTS = ['sync-udp', 'aio-udp', 'tw-udp']
IDENT_FCS = [17, 43]


def outputs(case, front):
    c = dict(case, front=front)
    ex = SH.execute(c)
    res = ex['res']
    out = res.out if front in FE.STREAM else b''.join(d for d, _ in res.datagrams)
    if front not in FE.STREAM and case.get('delivery', {}).get('peers'):
        out = b''.join(d + repr(a).encode() for d, a in res.datagrams)       # who is answered is part of the behaviour
    per = list(res.per_read)
    dump = SM.norm_dump(SM.dump(ex['blocks'], case['layout']['zero_mode']))
    return {'out': out, 'per_read': per, 'dump': dump, 'escaped': [type(e).__name__ for e in res.escaped], 'closed': res.closed, 'ex': ex}


def check_differential(run, case, fronts):
    """same bytes through several front-ends"""
    SH.build_reads(case)          # settle the (binary: delimiter-free) request messages once, before any front-end sees them
    results = {}
    for f in fronts:
        results[f] = outputs(case, f)
    regs_by_front = {f: SH.regions(dict(case, front=f)) for f in fronts}
    run.count('differential_cases')
    run.count('frontend_runs', len(fronts))
    kinds = {}
    ref = fronts[0]
    for f in fronts[1:]:
        run.count('pairwise_comparisons')
        a, b = results[ref], results[f]
        special = (regs_by_front[ref] ^ regs_by_front[f]) & {'twisted-listen-only-is-permanent'}
        lossy = (regs_by_front[ref] | regs_by_front[f]) & set(SH.LOSSY)
        if case.get('inserts') and a['dump'] == b['dump']:
            # bytes the framer cannot frame lie between the requests (recorded receive-path findings: what the front-ends write and
            # whether they close differs already); what has to agree is the effect on the datastore
            run.count('store_only_comparisons')
            continue
        if a['out'] != b['out'] or a['dump'] != b['dump']:
            what = 'output' if a['out'] != b['out'] else 'final store'
            text = '%s and %s differ in %s: %s vs %s' % (ref, f, what, a['out'].hex()[:80], b['out'].hex()[:80])
            if lossy and not special and (a['out'].startswith(b['out']) or b['out'].startswith(a['out'])):
                # frames parked in a framer by a known receive-path defect are flushed by however many further calls a front-end
                # happens to make (end-of-stream read, closing): one output is a prefix of the other
                for slug in lossy:
                    kinds['known:%s' % slug] = text
            elif lossy and not special and (a['closed'] or b['closed'] or a['escaped'] or b['escaped']):
                # after an exception the stream handlers close the connection while the serial handler resets and goes on
                for slug in lossy:
                    kinds['known:%s' % slug] = text
            elif special:
                for slug in special:
                    run.region(slug)
                    kinds['known:%s' % slug] = text
            else:
                kinds['front-ends-differ:%s-vs-%s' % (ref, f)] = text
    # against the model, in the clean region of the reference front-end
    if not regs_by_front[ref] and not case.get('inserts') and not case.get('no_model'):
        run.count('clean_region_cases')
        ex = results[ref]['ex']
        problems, matched = SH.match(case['framing'], ex['exp'], ex['out_frames'])
        run.count('responses_matched', matched)
        if ex['parse_error']:
            problems.append(('not-a-response', ex['parse_error']))
        for k, text in problems:
            kinds.setdefault('model:%s' % k, '%s vs model: %s' % (ref, text))
        want = ex['model'].dump()
        if results[ref]['dump'] != want:
            kinds['model:store'] = 'final store of %s differs from the model' % ref
    real = {k: v for k, v in kinds.items() if not k.startswith('known:')}
    if real:
        run.violation('differential:%s:%s' % (case['framing'], '+'.join(sorted(k.split(':')[0] + ':' + k.split(':')[1] for k in real))), case,
                      '; '.join('%s: %s' % (k, v) for k, v in sorted(real.items()))[:900])
        return False
    for k in kinds:
        slug = k.split(':', 1)[1]
        run.known(slug, {'rtu-one-frame-per-call': 'frames parked by the one-frame-per-call RTU framer are answered or not depending on how many further reads a front-end makes',
                         'binary-pipelined-frame-skipped': 'binary framer skips frames; front-ends differ in later flushes',
                         'binary-delimiter-in-body': 'a binary frame with delimiter bytes raises in the receive path: stream handlers close, the serial handler resets',
                         'foreign-unit-frame-discards-rest-of-read': 'rest of the read discarded',
                         'twisted-listen-only-is-permanent': 'only the Twisted front-end honours (and never leaves) listen-only mode'}[slug], case)
    return not kinds


def gen_case(r, framing, uniq, per_read):
    case = SH.gen_case(r, 'sync-tcp', framing, uniq, data_only=True, max_per_read=per_read)
    case['flags']['broadcast_enable'] = False            # Twisted offers no broadcast option: compared on common features only
    # sprinkle identification requests
    for rd in case['reads']:
        for fr in rd:
            if r.random() < 0.15:
                fr[2] = gen.message(r, REQ, r.choice(IDENT_FCS), small=True)
    return case


# ------------------------------------------------------------------ connection isolation
def isolation_case(r, framing, uniq, nconn, common=False):
    """nconn connections writing/reading disjoint address ranges of one unit; chunks may cut frames (ASCII only)"""
    z = bool(r.getrandbits(1))
    def blk(boolean):
        return {'type': 'seq', 'start': 0 if z else 1, 'values': [False if boolean else 0] * 4200}
    lay = {'c': blk(True), 'd': blk(True), 'i': blk(False), 'h': blk(False), 'alias': {}}
    layout = {'single': True, 'zero_mode': z, 'units': {1: lay}}
    conns = []
    for c in range(nconn):
        base = 1000 * (c + 1)
        frames = []
        for k in range(r.randint(2, 4) + (2 if common else 0)):
            uniq[0] += 1
            m = r.choice([{'dir': REQ, 'fc': 6, 'address': base + k, 'value': uniq[0] & 0xFFFF},
                          {'dir': REQ, 'fc': 3, 'address': base, 'count': 4},
                          {'dir': REQ, 'fc': 16, 'address': base + 10, 'registers': [(uniq[0] + j) & 0xFFFF for j in range(3)]},
                          {'dir': REQ, 'fc': 1, 'address': base, 'count': 9}])
            if common and k % 2:
                # byte-identical PDUs on every connection (ranges no connection writes to): only transaction ids differ
                m = [{'dir': REQ, 'fc': 3, 'address': 0, 'count': 4}, {'dir': REQ, 'fc': 1, 'address': 16, 'count': 9}, {'dir': REQ, 'fc': 4, 'address': 0, 'count': 2}][(k // 2) % 3]
            frames.append(ADU.build(framing, 1, S.encode(m), tid=(c * 100 + k)))
        stream = b''.join(frames)
        if framing == 'ascii':
            # cut anywhere (the ASCII framer is chunk independent, C06)
            n = len(stream)
            cuts = sorted(set(r.randrange(1, n) for _ in range(r.randint(1, 4))))
        else:
            bounds = list(itertools.accumulate(len(f) for f in frames))[:-1]
            cuts = bounds
        pts = [0] + cuts + [len(stream)]
        conns.append([stream[a:b] for a, b in zip(pts, pts[1:])])
    return {'framing': framing, 'layout': layout, 'conns': conns}


_SOLO = {}


def check_isolation(run, case, front, order):
    repo.reset_globals()
    framing, layout, conns = case['framing'], case['layout'], case['conns']
    key = (front, id(case))
    if key not in _SOLO:
        _SOLO.clear()
        solo = []
        for chunks in conns:
            ctx, model, blocks = SM.build(layout)
            res = FE.feed(front, framing, ctx, list(chunks))
            solo.append(res.out)
        _SOLO[key] = solo
    solo = _SOLO[key]
    ctx, model, blocks = SM.build(layout)
    results = FE.feed_multi(front, framing, ctx, conns, order)
    run.count('isolation_cases:%s' % front)
    run.count('interleaved_chunks', len(order))
    bad = []
    for i, res in enumerate(results):
        if getattr(res, 'deadlock', False):
            run.violation('isolation:%s/%s:deadlock' % (front, framing), dict(case, front=front, order=list(order)),
                          'the handler threads of %d connections are all blocked for good (a lock of the server code that nobody releases): connection %d alone produces %s'
                          % (len(results), i, solo[i].hex()[:60]))
            return False
        if res.stuck:
            run.watchdogs += 1
            return None
        if res.out != solo[i]:
            bad.append('connection %d alone produces %s, interleaved (order %r) %s' % (i, solo[i].hex()[:80], order[:12], res.out.hex()[:80]))
        if res.escaped:
            bad.append('connection %d: exception %r' % (i, res.escaped[:1]))
    if bad:
        run.violation('isolation:%s/%s' % (front, framing), dict(case, front=front, order=list(order)), '; '.join(bad)[:900])
        return False
    return True


def fine_isolation(run, r, uniq, n, prop='C17'):
    """sync TCP handler threads pre-empted at every source line of the framers / handlers / decoder / datastore (seeded random
    runs): 2..3 connections with disjoint address ranges must each produce exactly the bytes they produce alone"""
    for k in range(n):
        framing = ('tcp', 'tcp', 'ascii', 'rtu')[k % 4]
        case = isolation_case(r, framing, uniq, 2 + (k % 3 == 2), common=(k % 2 == 1))
        # whole frames only (one per read): what is under test is the interleaving of the handlers, not chunking
        seed = r.getrandbits(32)
        if k % 2 == 0:
            # idle periods longer than the receive timeout (the handler resets its framer and carries on), before or between the frames
            case['idle'] = [sorted(set([0] + [r.randrange(len(c) + 1) for _ in range(r.randint(0, 2))])) for c in case['conns']]
            run.count('fine_grained_runs_with_idle_timeouts')
        fine_one(run, case, framing, seed)


def fine_one(run, case, framing, seed):
    if True:
        repo.reset_globals()
        layout, conns = case['layout'], case['conns']
        if case.get('idle'):
            import socket
            conns = [list(c) for c in conns]
            for c, idle in zip(conns, case['idle']):
                for at in sorted(idle, reverse=True):
                    c.insert(at, socket.timeout('timed out'))
        solo = []
        for chunks in conns:
            ctx, model, blocks = SM.build(layout)
            solo.append(FE.feed('sync-tcp', framing, ctx, list(chunks)).out)
        ctx, model, blocks = SM.build(layout)
        results = FE.feed_multi('sync-tcp', framing, ctx, conns, [], fine_seed=seed)
        run.count('fine_grained_runs')
        if any(getattr(res, 'deadlock', False) for res in results):
            run.violation('fine-isolation:sync-tcp/%s:deadlock' % framing, dict(case, front='sync-tcp', fine_seed=seed),
                          'the handler threads of %d connections are all blocked for good (a lock of the server code that nobody releases)' % len(results))
            return
        if any(res.stuck for res in results):
            run.watchdogs += 1
            return
        bad = []
        for i, res in enumerate(results):
            if res.out != solo[i]:
                bad.append('connection %d alone produces %s, under line-level interleaving (seed %d) %s' % (i, solo[i].hex()[:80], seed, res.out.hex()[:80]))
            if res.escaped:
                bad.append('connection %d: exception %r' % (i, res.escaped[:1]))
        run.case(h64(('fine', framing, repr(conns), seed)), True,
                 sample={'kind': 'line-level interleaving', 'front': 'sync-tcp', 'framing': framing, 'connections': len(conns), 'seed': seed,
                         'verdict': 'each connection as when alone' if not bad else 'differs'}, sample_class=('fine', framing))
        if bad:
            run.violation('fine-isolation:sync-tcp/%s' % framing, dict(case, front='sync-tcp', fine_seed=seed), '; '.join(bad)[:900])


def orders(lens, r, limit):
    """interleavings of the chunk sequences: all of them when few, sampled otherwise"""
    total = sum(lens)
    base = [i for i, n in enumerate(lens) for _ in range(n)]
    count = 1
    import math
    count = math.factorial(total)
    for n in lens:
        count //= math.factorial(n)
    if count <= limit:
        seen = set()
        for p in itertools.permutations(base):
            if p not in seen:
                seen.add(p)
                yield list(p)
    else:
        for _ in range(limit):
            p = list(base)
            r.shuffle(p)
            yield p


def run(run):
    r = run.rng('main')
    uniq = [0]
    run.rule = ('differential case = (framing, layout, flags, request history grouped 1..3 per read) run through all stream (or datagram) front-ends, outputs and stores compared pairwise and with the model; '
                'isolation case = (front-end, framing, 1..3 connections with disjoint address ranges, interleaving order of their chunks) vs each connection alone; '
                'distinct = whole case; non-trivial = >= 2 front-ends compared or >= 2 connections interleaved')
    run.assumptions = ['data-access and identification requests only (diagnostic counters differ by design: Twisted counts bus messages)', 'broadcast compared only where offered',
                       'reference model and receivers', 'sync handlers run as real threads gated at recv by the scheduler']
    n = run.scale(130, 16000)
    for framing in ('tcp', 'ascii', 'rtu', 'binary'):
        for i in range(n):
            case = gen_case(r, framing, uniq, per_read=1 if i % 2 else 3)
            if i % 4 == 3:
                SH.add_delivery(r, case)           # asyncio: several reads queued before the handler task runs
            ok = check_differential(run, case, STREAM_FRONTS)
            run.case(h64(('diff', repr(case))), True,
                     sample={'kind': 'differential', 'framing': framing, 'fronts': STREAM_FRONTS, 'single': case['layout']['single'], 'hosted': sorted(case['layout']['units']),
                             'reads': [[(u, m['fc']) for u, t, m in rd] for rd in case['reads']][:5], 'verdict': 'identical' if ok else 'differs'},
                     sample_class=('diff-stream', framing))
    # a non-zero MBAP protocol identifier (the socket framer accepts it), and fragments the framer cannot frame between whole
    # requests: no model here, only "the TCP front-ends do the same" (bytes, closing or not, final store)
    for i in range(run.scale(60, 6000)):
        case = gen_case(r, 'tcp', uniq, per_read=1)
        tcp_fronts = ['sync-tcp', 'aio-tcp', 'tw-tcp']
        if i % 2:
            case['pid'] = r.choice([1, 0xBEEF, 0x0100, 0xFFFF])
            label = 'protocol-id'
        else:
            k = r.randrange(1, max(2, len(case['reads'])))
            frag = bytes(r.randrange(256) for _ in range(r.randint(1, 7)))
            case['inserts'] = [[k, frag.hex()]]
            label = 'fragment'
        ok = check_differential(run, case, tcp_fronts)
        run.count('differential_%s_cases' % label)
        run.case(h64(('diff-' + label, repr(case))), True,
                 sample={'kind': 'differential', 'class': label, 'fronts': tcp_fronts, 'pid': case.get('pid'), 'inserts': case.get('inserts'), 'verdict': 'identical' if ok else 'differs'},
                 sample_class=('diff-' + label,))
    # register cells holding what no response can carry (70000, -5, 1.5 - an application wrote them into its store): whatever a
    # front-end does when it cannot encode the response, the others do the same (bytes, closing, later requests, final store)
    for i in range(run.scale(24, 2400)):
        case = gen_case(r, 'tcp', uniq, per_read=1)
        case['no_model'] = True
        bad_cells = 0
        for lay in case['layout']['units'].values():
            for t in ('h', 'i'):
                sp = lay[t]
                if t in lay['alias']:
                    continue
                if sp['type'] == 'seq' and sp['values']:
                    for _ in range(2):
                        sp['values'][r.randrange(len(sp['values']))] = r.choice([70000, -5, 1.5, 65536, -1])
                        bad_cells += 1
                elif sp['type'] == 'sparse' and sp['cells']:
                    k0 = r.choice(sorted(sp['cells']))
                    sp['cells'][k0] = r.choice([70000, -5, 1.5])
                    bad_cells += 1
        fronts = (['sync-tcp', 'aio-tcp', 'tw-tcp'], DGRAM_FRONTS)[i % 2]
        if i % 2:
            case['flags']['broadcast_enable'] = False
        ok = check_differential(run, case, fronts)
        run.count('differential_unencodable_cases')
        run.case(h64(('diff-unencodable', repr(case))), True,
                 sample={'kind': 'differential', 'class': 'store cells no response can carry', 'fronts': fronts, 'cells': bad_cells, 'verdict': 'identical' if ok else 'differs'},
                 sample_class=('diff-unencodable', i % 2))
    for i in range(n):
        case = gen_case(r, 'tcp', uniq, per_read=1 if i % 3 else 2)
        case['flags']['broadcast_enable'] = bool(i % 4 == 0)
        if i % 2:
            SH.add_delivery(r, case)               # several senders; asyncio: datagrams queued before the handler task runs
        # Twisted offers no broadcast option: with broadcast on only the two front-ends that have it are compared
        ok = check_differential(run, case, DGRAM_FRONTS if not case['flags']['broadcast_enable'] else DGRAM_FRONTS[:2])
        run.case(h64(('dgram', repr(case))), True,
                 sample={'kind': 'differential', 'framing': 'tcp', 'fronts': DGRAM_FRONTS, 'reads': [[(u, m['fc']) for u, t, m in rd] for rd in case['reads']][:5],
                         'verdict': 'identical' if ok else 'differs (known)'},
                 sample_class=('diff-dgram',))
    # connection isolation
    idx = 0
    for front in STREAM_FRONTS:
        for framing in ('ascii', 'tcp', 'rtu'):
            for nconn in (2, 3):
                for rep in range(run.scale(3, 40)):
                    case = isolation_case(r, framing, uniq, nconn)
                    lens = [len(c) for c in case['conns']]
                    for order in orders(lens, r, 12 if not run.thorough else 1680):
                        idx += 1
                        if not run.mine(idx):
                            continue
                        ok = check_isolation(run, case, front, order)
                        run.case(h64(('iso', front, framing, repr(case['conns']), tuple(order))), True,
                                 sample={'kind': 'isolation', 'front': front, 'framing': framing, 'connections': nconn, 'chunks_per_connection': lens, 'order': order[:16],
                                         'verdict': 'each connection as when alone' if ok else 'differs'},
                                 sample_class=('iso', front, framing))
    if run.shard in (None, 0):
        # the datagram front-ends behind a real UDP socket (sync server thread, Twisted reactor in a child process), including
        # datagrams longer than one serial ADU: byte for byte what the in-process drivers (compared above) produce
        from . import loopback
        loopback.datagram_histories(run, r, uniq, run.scale(6, 80), big=True)
        loopback.datagram_histories(run, r, uniq, run.scale(4, 80), big=False)
        run.floor('histories over real UDP sockets', run.counters.get('loopback_histories:sync-udp', 0), 4)
        fine_isolation(run, r, uniq, run.scale(40, 1500))
        run.floor('line-level interleaving runs', run.counters.get('fine_grained_runs', 0), 20)
    run.floor('pairwise front-end comparisons', run.counters.get('pairwise_comparisons', 0), 1500 if run.shard is None else 80)
    run.floor('interleavings per stream front-end (min)', min(run.counters.get('isolation_cases:%s' % f, 0) for f in STREAM_FRONTS), 100 if run.shard is None else 5)
    run.floor('clean-region differential cases', run.counters.get('clean_region_cases', 0), 200 if run.shard is None else 10)
    repo.reset_globals()


def replay(run, case):
    case['layout']['units'] = {int(k): v for k, v in case['layout']['units'].items()}
    if case.get('loopback') == 'dgram':
        print('note: the replay re-runs the history through the in-process drivers only (the real-socket run needs the tier)')
    if 'fine_seed' in case:
        fine_one(run, case, case['framing'], case['fine_seed'])
    elif 'conns' in case:
        print(check_isolation(run, case, case['front'], case['order']))
    else:
        fronts = DGRAM_FRONTS if case.get('front') in DGRAM_FRONTS else STREAM_FRONTS
        print(check_differential(run, case, fronts))
    run.evaluations += 1
