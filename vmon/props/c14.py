"""C14 - predicted reply length equals the length the server really sends.

Part A (sizes): get_response_pdu_size() of a fresh request vs the executed reply of the real
server-side execute() and of the register-file model; base_adu_size / ASCII doubling /
exception lengths of the transaction manager vs the reference ADU of that reply.
Part B (reads): the real serial clients on the fake serial port; the sizes they ask of the
transport must add up to exactly the reply frame, no read may wait out its timeout."""
import types

from .. import adapters as A
from .. import gen
from .. import repo
from ..core import h64
from ..doubles import clientio as IO
from ..doubles import peers as P
from ..spec import pdu as S
from ..spec import adu as ADU
from ..spec.pdu import REQ, RSP

from pymodbus.datastore import ModbusSequentialDataBlock, ModbusSlaveContext
from pymodbus.factory import ClientDecoder
from pymodbus.pdu import ExceptionResponse
from pymodbus.transaction import (ModbusTransactionManager, ModbusSocketFramer, ModbusRtuFramer,
                                  ModbusAsciiFramer, ModbusBinaryFramer, ModbusTlsFramer)

LEVEL = 'exploration'
ANCHORS = ['pymodbus/bit_read_message.py', 'pymodbus/bit_write_message.py', 'pymodbus/register_read_message.py',
           'pymodbus/register_write_message.py', 'pymodbus/diag_message.py', 'pymodbus/transaction.py']
FRAMERS = {'rtu': ModbusRtuFramer, 'ascii': ModbusAsciiFramer, 'binary': ModbusBinaryFramer, 'tls': ModbusTlsFramer,
           'tcp': ModbusSocketFramer}
MAXQ = {1: 2000, 2: 2000, 3: 125, 4: 125, 15: 1968, 16: 123}

_CTX = None


def big_context():
    global _CTX
    if _CTX is None:
        _CTX = ModbusSlaveContext(di=ModbusSequentialDataBlock(0, [True, False, True] * 21846),
                                  co=ModbusSequentialDataBlock(0, [False, True] * 32769),
                                  ir=ModbusSequentialDataBlock(0, [0x7B7D] * 65537),
                                  hr=ModbusSequentialDataBlock(0, [0x1234] * 65537), zero_mode=True)
    return _CTX


_TM = {}


def manager(framing):
    if framing not in _TM:
        stub = types.SimpleNamespace(framer=FRAMERS[framing](ClientDecoder()))
        _TM[framing] = ModbusTransactionManager(stub)
    return _TM[framing]


def requests(run, r):
    """every quantity 1..max for the data-access requests, every diagnostic sub-function"""
    for fc in (1, 2, 3, 4):
        for q in range(1, MAXQ[fc] + 1):
            yield {'dir': REQ, 'fc': fc, 'address': r.randrange(0, 60000), 'count': q}
    for q in range(1, 1969):
        yield {'dir': REQ, 'fc': 15, 'address': r.randrange(0, 60000), 'bits': gen.bits(r, q)}
    for q in range(1, 124):
        yield {'dir': REQ, 'fc': 16, 'address': r.randrange(0, 60000), 'registers': gen.regs(r, q)}
    for q in range(1, 126):
        for wq in (1, 2, 121) if q % 5 else range(1, 122, 7):
            yield {'dir': REQ, 'fc': 23, 'read_address': r.randrange(0, 60000), 'read_count': q,
                   'write_address': r.randrange(0, 60000), 'registers': gen.regs(r, wq)}
    for v in (0, 0xFF00):
        for a in (0, 1, 0x7B, 0xFFFF):
            yield {'dir': REQ, 'fc': 5, 'address': a, 'value': v}
    for v in gen.W:
        yield {'dir': REQ, 'fc': 6, 'address': gen.word(r), 'value': v}
    for sub in gen.DIAG_SUBS:
        if sub == 4:
            continue                    # force listen-only has no normal response
        if sub == 0:
            for n in (1, 2, 3, 10, 60, 125):
                yield {'dir': REQ, 'fc': 8, 'sub': 0, 'data': gen.regs(r, n)}
        elif sub == 1:
            for v in (0, 0xFF00):
                yield {'dir': REQ, 'fc': 8, 'sub': 1, 'data': [v]}
        elif sub == 21:
            for v in (3, 4):
                yield {'dir': REQ, 'fc': 8, 'sub': 21, 'data': [v]}
        else:
            for v in (0, 1, 0x7B7D, 0xFFFF):
                yield {'dir': REQ, 'fc': 8, 'sub': sub, 'data': [v]}


COVERED_FCS = (1, 2, 3, 4, 5, 6, 8, 15, 16, 23)


def introspected_requests(run, r):
    """"every request class exposing a reply-size prediction": the classes registered in the server decoder are asked, so a
    prediction added to another request type (none on this tree) is swept as well"""
    from pymodbus.factory import ServerDecoder
    dec = ServerDecoder()
    extra = []
    for fc in range(1, 128):
        try:
            cls = dec.lookupPduClass(fc)
        except Exception:  # noqa
            continue
        if cls is None or fc in COVERED_FCS or not hasattr(cls, 'get_response_pdu_size'):
            continue
        extra.append(fc)
    run.observed['request_classes_with_a_prediction_outside_the_list'] = extra
    for fc in extra:
        for _ in range(12):
            try:
                m = gen.message(r, REQ, fc, None, small=True)
            except Exception:  # noqa
                break
            if fc in (20, 21, 22, 24, 7, 11, 12, 17, 43):
                yield m


def size_case(run, m):
    """part A for one request"""
    case = {'part': 'sizes', 'm': m}
    repo.reset_globals()
    try:
        predicted = A.build(m).get_response_pdu_size()
        rsp = A.build(m).execute(big_context())
    except Exception as e:  # noqa
        run.violation('sizes-raised:fc%d' % m['fc'], case, repr(e))
        return False
    if isinstance(rsp, ExceptionResponse):
        run.violation('sizes-exception:fc%d' % m['fc'], case, 'in-range request answered with exception %r' % rsp.exception_code)
        return False
    # the same request obtained the other ways: decoded from its PDU (a gateway forwarding it), and an object constructed for
    # another quantity whose quantity attribute was then changed - the prediction belongs to the request as it is now
    try:
        from pymodbus.factory import ServerDecoder
        multiword = m['fc'] == 8 and len(m.get('data', [])) != 1          # (recorded: the server decoder cannot decode these)
        via_decode = predicted if multiword else ServerDecoder().decode(S.encode(m)).get_response_pdu_size()
        run.count('size_comparisons')
        if via_decode != predicted:
            run.violation('pdu-size-decoded-request:fc%d' % m['fc'], case, 'constructed request predicts %d, the same request decoded from its PDU predicts %d' % (predicted, via_decode))
            return False
        attr = {1: 'count', 2: 'count', 3: 'count', 4: 'count', 23: 'read_count'}.get(m['fc'])
        if attr:
            o = A.build(dict(m, **{attr: 1 + (m[attr] % 7)}))
            o.get_response_pdu_size()
            setattr(o, attr, m[attr])
            run.count('size_comparisons')
            if o.get_response_pdu_size() != predicted:
                run.violation('pdu-size-changed-request:fc%d' % m['fc'], case, 'request built for %s=%d and then set to %d predicts %d, a fresh one %d'
                              % (attr, 1 + (m[attr] % 7), m[attr], o.get_response_pdu_size(), predicted))
                return False
    except Exception as e:  # noqa
        run.violation('sizes-raised:fc%d' % m['fc'], case, 'prediction of the decoded / modified request raised %r' % (e,))
        return False
    pdu = bytes([rsp.function_code]) + rsp.encode()
    ok = True
    run.count('size_comparisons')
    k = 'fc%d%s' % (m['fc'], '/%d' % m['sub'] if m['fc'] == 8 else '')
    known_plus = m['fc'] == 8 and m['sub'] == 21
    if known_plus:
        run.region('modbusplus-size')
    if predicted != len(pdu):
        if known_plus and predicted == len(pdu) + 2:
            run.known('modbusplus-size', 'GetClearModbusPlusRequest predicts 2 bytes more than the reply carries', case)
        else:
            run.violation('pdu-size:%s' % k, case, 'predicted %d, reply PDU %s... is %d bytes' % (predicted, pdu.hex()[:40], len(pdu)))
        ok = False
    if m['fc'] in (1, 2, 3, 4, 5, 6, 15, 16, 22, 23):
        model = S.encode(P.lazy_regfile().execute(m))
        run.count('size_comparisons')
        if len(model) != predicted:
            run.violation('pdu-size-vs-model:%s' % k, case, 'predicted %d, conformant reply is %d bytes' % (predicted, len(model)))
            ok = False
    # framing overhead: normal and exception replies
    for framing in ('rtu', 'ascii', 'binary', 'tls', 'tcp'):
        tm = manager(framing)
        want = len(ADU.build(framing, 17, pdu, tid=1))
        got = tm._calculate_response_length(len(pdu) * 2 if framing == 'ascii' else len(pdu))
        run.count('size_comparisons')
        if framing == 'binary' and (0x7B in pdu[1:] or 0x7D in pdu[1:]):
            run.region('binary-delimiter-in-body')
            nesc = sum(1 for b in pdu[1:] if b in (0x7B, 0x7D))
            if got + nesc == want:
                run.known('binary-delimiter-in-body', 'a binary reply with escaped delimiter bytes is longer than predicted', case)
                continue
        if got != want:
            run.violation('adu-size:%s' % framing, case, '%s: client expects %s bytes for a %d-byte PDU, reference frame has %d' % (framing, got, len(pdu), want))
            ok = False
        ewant = len(ADU.build(framing, 17, bytes([m['fc'] | 0x80, 2]), tid=1))
        egot = tm._calculate_exception_length()
        run.count('size_comparisons')
        if egot != ewant:
            run.violation('exception-size:%s' % framing, case, '%s: exception length %s, reference frame has %d' % (framing, egot, ewant))
            ok = False
    return ok


def read_case(run, kind, m, exception=False, echo=False, subclass=False, unit=17, slow=False):
    """part B: one transaction of a real serial client on the fake port (echo: an adaptor that echoes what the host sends,
    client configured with handle_local_echo)"""
    case = {'part': 'reads', 'client': kind, 'm': m, 'exception': exception, 'echo': echo, 'subclass': subclass, 'unit': unit, 'slow': slow}
    framing = IO.framing_of(kind)
    peer = P.ScriptedPeer(framing, script=[{'kind': 'exception', 'code': 2}] if exception else [], timeout=1.0)
    env = IO.Env(peer)
    env.echo = echo
    if slow:
        env.byte_time = 0.018          # 600 baud: the reply trickles in, one character every 18 ms
    repo.reset_globals()
    with IO.installed(env):
        client = IO.make_client(kind, timeout=1.0, **dict({'handle_local_echo': True} if echo else {}, **({'framer_subclass': True} if subclass else {})))
        try:
            client.connect()
            t0 = env.clock.now
            req = A.build(m, unit=unit)
            result = client.execute(req)
        except IO.StepWatchdog as e:
            run.violation('reads-unbounded:%s' % kind, case, repr(e))
            return False
        except Exception as e:  # noqa
            run.violation('reads-raised:%s:%s' % (kind, type(e).__name__), case, repr(e))
            return False
        elapsed = env.clock.now - t0
    if not peer.events:
        run.violation('reads-no-request:%s' % kind, case, 'the reference server did not recognise the request: %r' % peer.unparsed[:1])
        return False
    conn = env.conns[-1]
    wi = max(i for i, e in enumerate(env.trace) if e[1] in ('write', 'send'))
    reads = [e[2] for e in env.trace[wi + 1:] if e[1] == 'read']
    stream = kind.endswith('-over-tcp')          # socket transport: recv(n) asks for what is still missing, the sizes asked do not add up
    sent = peer.events[0][3] if not exception else ADU.build(framing, unit, bytes([S.encode(m)[0] | 0x80, 2]))
    run.count('read_transactions')
    region = framing == 'binary' and any(b in (0x7B, 0x7D) for b in sent[1:-1])
    if region:
        run.region('binary-delimiter-in-body')
    ok = True
    why = None
    echoed = len(conn.written[-1][1]) if echo and conn.written else 0
    if not stream and sum(r for r in reads if r and r > 0) != len(sent) + echoed:
        why = 'read sizes %r sum to %d, reply frame is %d bytes%s' % (reads, sum(r for r in reads if r), len(sent), ' after an echo of %d bytes' % echoed if echo else '')
    elif conn.available():
        why = '%d reply bytes left unread' % conn.available()
    elif elapsed >= 1.0:
        why = 'the transaction consumed %.3f virtual seconds (a read waited out its timeout)' % elapsed
    else:
        want = S.decode(RSP, sent[1:-2]) if framing == 'rtu' else None
        if isinstance(result, Exception) or result is None or not hasattr(result, 'function_code'):
            why = 'reply read completely but the call returned %r' % (result,)
        elif exception != (result.function_code >= 0x80):
            why = 'returned %r' % (result,)
        elif want is not None and not A.same(A.extract(result), want, pad=True):
            why = 'returned fields differ from the reply sent'
    diag_region = framing == 'rtu' and m['fc'] == 8 and len(m['data']) != 1 and not exception
    if diag_region:
        run.region('rtu-diag-fixed-size')
    if why:
        ok = False
        if diag_region and why.startswith('reply read completely'):
            run.known('rtu-diag-fixed-size', 'RTU framer assumes 8-byte diagnostic frames: the reply is read completely but not decoded', case)
        elif region and not exception:
            run.known('binary-delimiter-in-body', 'binary client reads the un-escaped length; an escaped reply is longer', case)
        else:
            run.violation('reads:%s:%s' % (kind, 'exception' if exception else 'normal'), case, why)
    return ok


def read_history(run, kind, steps):
    """part D: a history of transactions on one or two client objects of one process (state must not leak between requests or
    between clients).  steps: [{'m': request, 'reply': 'normal' | 'exception' | 'silent', 'client': 0 | 1}]"""
    case = {'part': 'history', 'client': kind, 'steps': steps}
    framing = IO.framing_of(kind)
    script = [{'kind': 'exception', 'code': 2} if st['reply'] == 'exception' else {'kind': 'none'} if st['reply'] == 'silent' else {'kind': 'own'} for st in steps]
    peer = P.ScriptedPeer(framing, script=script, timeout=1.0)
    env = IO.Env(peer)
    unit = 17
    repo.reset_globals()
    ok = True
    silent_units = {}                 # client index -> the unit stayed silent in that client's previous transaction
    with IO.installed(env):
        clients = {}
        for k, st in enumerate(steps):
            ci = st.get('client', 0)
            if ci not in clients:
                clients[ci] = IO.make_client(kind, timeout=1.0)
                clients[ci].connect()
            client = clients[ci]
            m = st['m']
            i0, t0, e0 = len(env.trace), env.clock.now, len(peer.events)
            try:
                result = client.execute(A.build(m, unit=unit))
            except IO.StepWatchdog as e:
                run.violation('history-unbounded:%s' % kind, case, 'step %d: %r' % (k, e))
                return False
            except Exception as e:  # noqa
                run.violation('history-raised:%s:%s' % (kind, type(e).__name__), case, 'step %d: %r' % (k, e))
                return False
            elapsed = env.clock.now - t0
            tr = env.trace[i0:]
            run.count('history_transactions')
            after_silence = silent_units.get(ci, False)
            silent_units[ci] = st['reply'] == 'silent'
            if st['reply'] == 'silent':
                continue
            if len(peer.events) <= e0:
                run.violation('history-no-request:%s' % kind, case, 'step %d: the reference server did not recognise the request' % k)
                return False
            sent = peer.events[e0][3] if st['reply'] == 'normal' else ADU.build(framing, unit, bytes([S.encode(m)[0] | 0x80, 2]))
            wis = [i for i, e in enumerate(tr) if e[1] == 'write']
            reads = [e[2] for e in tr[wis[-1] + 1:] if e[1] == 'read'] if wis else []
            conn = [c for c in env.conns if not c.closed][-1] if env.conns else None
            why = None
            got = sum(r for r in reads if r and r > 0)
            if got != len(sent):
                why = 'read sizes %r sum to %d, reply frame is %d bytes' % (reads, got, len(sent))
            elif elapsed >= 1.0:
                why = 'the transaction consumed %.3f virtual seconds (a read waited out its timeout)' % elapsed
            elif isinstance(result, Exception) or result is None or not hasattr(result, 'function_code'):
                why = 'reply read completely but the call returned %r' % (result,)
            elif (st['reply'] == 'exception') != (result.function_code >= 0x80):
                why = 'returned %r' % (result,)
            if framing == 'binary' and any(b in (0x7B, 0x7D) for b in sent[1:-1]):
                run.region('binary-delimiter-in-body')
                if why:
                    run.known('binary-delimiter-in-body', 'binary client reads the un-escaped length; an escaped reply is longer', case)
                    return False
            if framing == 'rtu' and m['fc'] == 8 and len(m['data']) != 1:
                continue
            if why:
                ok = False
                if after_silence and st['reply'] == 'exception':
                    run.region('full-read-after-silence-waits-on-exception-reply')
                    if 'waited out' in why or 'read sizes' in why:
                        run.known('full-read-after-silence-waits-on-exception-reply',
                                  'after a transaction the unit did not answer, the client reads the predicted normal length in one go: an exception reply is shorter and the read waits out its timeout', case)
                        return False
                run.violation('history:%s:%s%s' % (kind, st['reply'], ':after-silence' if after_silence else ''), case, 'step %d (%s): %s' % (k, _short_m(m), why))
                return False
    return ok


def _short_m(m):
    return 'fc%d %s' % (m['fc'], {k: (v if not isinstance(v, list) else '%d values' % len(v)) for k, v in m.items() if k not in ('dir', 'fc')})


def gen_history_steps(r, kind):
    """6..9 steps: same function codes with changing quantities (FC23: same write count, different read counts), different
    diagnostic sub-functions, an occasional silent or exception reply, sometimes a second client object"""
    steps = []
    two = r.random() < 0.4
    wq = r.randint(1, 4)
    for k in range(r.randint(6, 9)):
        x = r.random()
        if x < 0.3:
            m = {'dir': REQ, 'fc': 23, 'read_address': r.randint(0, 50), 'read_count': r.choice([1, 2, 3, 8, 20, 60, 125]), 'write_address': r.randint(0, 50),
                 'registers': [r.randrange(65536) for _ in range(wq)]}
        elif x < 0.5:
            m = {'dir': REQ, 'fc': r.choice([3, 4]), 'address': r.randint(0, 99), 'count': r.choice([1, 2, 5, 17, 64, 125])}
        elif x < 0.65:
            m = {'dir': REQ, 'fc': r.choice([1, 2]), 'address': r.randint(0, 99), 'count': r.choice([1, 7, 8, 9, 64, 1000, 2000])}
        elif x < 0.8:
            m = {'dir': REQ, 'fc': 8, 'sub': r.choice([0, 2, 10, 11, 12, 13, 14, 15, 16, 17, 18, 20]), 'data': [r.randrange(65536)]}
        elif x < 0.9:
            m = {'dir': REQ, 'fc': 16, 'address': r.randint(0, 99), 'registers': [r.randrange(65536) for _ in range(r.choice([1, 2, 30, 123]))]}
        else:
            m = {'dir': REQ, 'fc': r.choice([5, 6]), 'address': r.randint(0, 99), 'value': r.choice([0, 0xFF00])}
        if m['fc'] == 8 and m['sub'] in (10,):
            m['data'] = [0]
        y = r.random()
        steps.append({'m': m, 'reply': 'silent' if y < 0.12 else 'exception' if y < 0.35 else 'normal', 'client': (1 if two and r.random() < 0.5 else 0)})
    return steps


def run(run):
    r = run.rng('main')
    run.rule = ('part A: case = one request (every quantity 1..max of FC1-4,15,16,23, FC5/6, every diagnostic sub-function), prediction vs '
                'executed reply vs model reply, and per-framing lengths; part B: case = (serial client kind, request, normal/exception reply), '
                'transport read sizes vs reply frame; distinct = (part, request kind, quantity); all non-trivial')
    run.assumptions = ['reference ADU builder', 'register-file model as the conformant server', 'pyserial semantics of the fake port']
    n = 0
    import itertools
    for m in itertools.chain(requests(run, r), introspected_requests(run, r)):
        n += 1
        ok = size_case(run, m)
        q = m.get('count', len(m.get('bits', m.get('registers', m.get('data', [])))))
        run.case(h64(('A', m['fc'], m.get('sub'), q, m.get('read_count'))), True,
                 sample={'part': 'sizes', 'request': {k: v for k, v in m.items() if k not in ('bits', 'registers')}, 'verdict': 'held' if ok else 'differs'},
                 sample_class=('A', m['fc'], m.get('sub')))
        # part B on a thinned set (every quantity modulo 8 and the extremes are kept)
        if m['fc'] == 8 and m['sub'] in (2, 3, 10, 20, 21, 1):
            continue                     # diagnostics that alter process-wide state or have pymodbus-only replies
        if m['fc'] not in COVERED_FCS + (22,):
            continue
        stride = 1 if run.thorough else 23
        if q <= 17 or q % stride == 0 or q >= MAXQ.get(m['fc'], 0) - 2:
            for kind in ('rtu', 'ascii', 'binary'):
                for exc in (False, True):
                    if exc and q > 3 and not run.thorough:
                        continue
                    ok = read_case(run, kind, m, exc)
                    if q <= 5 or q % 41 == 0:
                        # the unit ids at the edges of the range: 0 (answered like any other unit unless the client was told to broadcast),
                        # 247, 255
                        ok = read_case(run, kind, m, exc, unit=(0, 0, 255, 247)[q % 4]) and ok
                        run.count('edge_unit_transactions')
                        # ... and on a slow line, where the reply is still arriving when the client starts to read
                        if q <= 5 and (m.get('read_count') or m.get('count') or 1) <= 8:           # (short replies: at 600 baud a long one takes longer than the client's timeout)
                            ok = read_case(run, kind, m, exc, unit=(0, 17, 255, 0)[q % 4], slow=True) and ok
                            run.count('slow_line_transactions')
                    if q <= 3 or q % 97 == 0:
                        ok = read_case(run, kind, m, exc, echo=True) and ok
                        run.count('echo_transactions')
                        # the same framings over a socket, the framer being an application's subclass of the library class
                        ok = read_case(run, kind + '-over-tcp', m, exc, subclass=True) and ok
                        run.count('subclassed_framer_transactions')
                    run.case(h64(('B', kind, m['fc'], m.get('sub'), q, exc)), True,
                             sample={'part': 'reads', 'client': kind, 'fc': m['fc'], 'quantity': q, 'exception_reply': exc, 'verdict': 'held' if ok else 'differs'},
                             sample_class=('B', kind, exc))
    # part D: histories on one or two client objects (state must not leak from one transaction, or one client, into the next)
    nh = run.scale(60, 6000)
    for kind in ('rtu', 'ascii', 'binary'):
        for i in range(nh):
            steps = gen_history_steps(r, kind)
            ok = read_history(run, kind, steps)
            run.case(h64(('D', kind, repr(steps))), True,
                     sample={'part': 'history', 'client': kind, 'steps': [(st['client'], st['m']['fc'], st['reply']) for st in steps], 'verdict': 'every reply read exactly' if ok else 'differs'},
                     sample_class=('D', kind))
    run.floor('history transactions', run.counters.get('history_transactions', 0), 800)
    if run.thorough:
        # part C: real client <-> real server over loopback with the serial framings: a prediction that is too short makes the
        # client stop before the checksum (error object), one that is too long makes it wait for its whole timeout
        from . import loopclient
        loopclient.histories(run, r, [0], 25, framings=('rtu', 'ascii', 'binary'), prop='C14')
        run.floor('real-socket transactions', sum(v for k, v in run.counters.items() if k.startswith('loopclient_transactions:')), 500)
    run.exhaustive = not run.thorough
    run.floor('size comparisons', run.counters.get('size_comparisons', 0), 50000)
    run.floor('client read transactions', run.counters.get('read_transactions', 0), 800)
    repo.reset_globals()


def replay(run, case):
    if case.get('loopclient'):
        from . import loopclient
        case['layout']['units'] = {int(k): v for k, v in case['layout']['units'].items()}
        loopclient.one(run, case, 'C14')
        return
    if case.get('part') == 'history':
        print('held' if read_history(run, case['client'], case['steps']) else 'differs')
        run.evaluations += 1
        return
    m = case['m']
    if case['part'] == 'sizes':
        print('held' if size_case(run, m) else 'differs')
    else:
        print('held' if read_case(run, case['client'], m, case['exception'], case.get('echo', False), case.get('subclass', False), case.get('unit', 17), case.get('slow', False)) else 'differs')
    run.evaluations += 1
