"""C05 - invalid requests get the right exception and change nothing.

Same register-file model as C04; inputs are raw PDUs (length-consistent on the wire) with
deliberately inconsistent quantity / byte count / value / address fields, decoded by the
real ServerDecoder and executed; full store dump before/after every request.  Datastore
failures are injected through proxied blocks behind every front-end (expects 04)."""
import struct

from .. import gen
from .. import frontends as FE
from .. import servermodel as SM
from .. import repo
from ..core import h64
from ..spec import pdu as S
from ..spec import adu as ADU
from ..spec.pdu import REQ, RSP
from ..spec.regfile import TABLE_OF_FC
from .c04 import gen_history, layout_addresses, _diff, _sh, ANCHORS  # noqa: F401

from pymodbus.factory import ServerDecoder

LEVEL = 'exploration'
SHARDS = {'thorough': 16}
SD = ServerDecoder()
LIMIT = {1: 2000, 2: 2000, 3: 125, 4: 125, 15: 1968, 16: 123}


def regions_of(m):
    """known-finding regions by predicate on the request fields"""
    fc = m['fc']
    out = []
    if fc == 15:
        q = m.get('count', len(m['bits']))
        bc = m.get('byte_count', (len(m['bits']) + 7) // 8)
        if q > 8 * bc:
            out.append('fc15-quantity-vs-bytecount')
    if fc == 16:
        q = m.get('count', len(m['registers']))
        bc = m.get('byte_count', 2 * len(m['registers']))
        if 2 * q > bc:
            out.append('fc16-quantity-exceeds-data-raises')
    if fc == 23:
        bc = m.get('byte_count', 2 * len(m['registers']))
        if bc % 2:
            out.append('fc23-odd-write-bytecount-raises')
    return out


class World(object):
    """one layout with real context + model, stepped request by request"""

    def __init__(self, layout):
        self.layout = layout
        self.ctx, self.model, self.blocks = SM.build(layout)
        self.uid = int(next(iter(layout['units'])))
        self.slave = self.ctx[self.uid]
        self.tgt = self.model.target(self.uid)

    def dump(self):
        return SM.norm_dump(SM.dump(self.blocks, self.layout['zero_mode']))


def step(run, w, m, case, pdu=None):
    """execute one (possibly invalid) request on real + model; returns True if they agree"""
    pdu = pdu if pdu is not None else S.encode(m)
    fc = pdu[0]
    before = w.dump()
    regs = regions_of(m) if 'fc' in m and m['fc'] in TABLE_OF_FC else []
    for slug in regs:
        run.region(slug)
    if not regs:
        run.count('clean_region_cases')
    if m.get('illegal'):
        want_code = 1
        want = bytes([fc | 0x80, 1])
    else:
        want_msg = w.tgt.execute(m)
        want = S.encode(want_msg)
        want_code = want[1] if want[0] >= 0x80 else 0
    run.count('expect:%d' % want_code)
    exc = None
    try:
        req = SD.decode(pdu)
        rsp = req.execute(w.slave)
        got = bytes([rsp.function_code]) + rsp.encode()
    except Exception as e:  # noqa
        exc, got = e, None
    after = w.dump()
    run.count('requests')
    run.count('store_comparisons')
    problems = []
    if exc is not None:
        problems.append(('raised:%s' % type(exc).__name__, 'decode/execute raised %r' % (exc,)))
    elif got != want:
        problems.append(('response:want%d:got%s' % (want_code, ('%d' % got[1]) if got[0] >= 0x80 else 'normal'),
                         'response %s, model %s' % (got.hex()[:60], want.hex()[:60])))
    if (got is not None and got[0] >= 0x80) or exc is not None:
        if after != before:
            problems.append(('store-changed-on-exception', 'answered with an exception / raised, but the store changed: %s' % _diff(after, before)))
    if after != w.model.dump():
        problems.append(('store', 'store differs from the model: %s' % _diff(after, w.model.dump())))
    if not problems:
        return True
    kinds = set(k for k, _ in problems)
    if excused(run, m, regs, kinds, exc, got, before, after, w, case):
        # keep model and real store in step for the rest of the history
        resync(w, after)
        return False
    k, msg = problems[0]
    run.violation('fc%s:%s' % (fc, '+'.join(sorted(kinds))), case, 'request %s (%s): %s' % (_sh(m), pdu.hex()[:60], '; '.join(p[1] for p in problems)))
    resync(w, after)
    return False


def resync(w, after):
    for t in SM.TABLES:
        tab = w.tgt.t[t]
        for a, v in after[w.uid][t].items():
            tab[a] = v


def excused(run, m, regs, kinds, exc, got, before, after, w, case):
    fc = m.get('fc')
    if 'fc15-quantity-vs-bytecount' in regs:
        bc = m.get('byte_count', (len(m['bits']) + 7) // 8)
        changed = _changed(before, after, w.uid)
        span = {('c', m['address'] + i) for i in range(8 * bc)}
        if exc is None and changed <= span and got is not None and (got[0] == 15 or got == bytes([0x8F, 2])):
            return run.known('fc15-quantity-vs-bytecount', 'FC15 whose quantity exceeds the bits present is executed with the bits present (or answered 02) instead of exception 03', case)
    if 'fc16-quantity-exceeds-data-raises' in regs and isinstance(exc, struct.error) and after == before:
        return run.known('fc16-quantity-exceeds-data-raises', 'FC16 whose quantity exceeds the register data raises struct.error in decode: no exception 03 is produced', case)
    if 'fc23-odd-write-bytecount-raises' in regs and isinstance(exc, struct.error) and after == before:
        return run.known('fc23-odd-write-bytecount-raises', 'FC23 with an odd write byte count raises struct.error in decode: no exception 03 is produced', case)
    return False


def _changed(before, after, uid):
    out = set()
    for t in SM.TABLES:
        for a, v in after[uid][t].items():
            if before[uid][t].get(a) != v:
                out.add((t, a))
    # aliased tables report the same cell twice: normalise d->c, i->h is not needed for the findings above
    return {(('c' if t == 'd' and before[uid]['d'] == before[uid]['c'] else t), a) for t, a in out}


# ------------------------------------------------------------------ workloads
def small_layout(r, i):
    layout = {'single': True, 'zero_mode': bool(i % 2), 'units': {1: SM.unit_layout(r, share=(i % 4 == 0), small=True)}}
    # how the addressing mode reaches the context: explicit keyword (usual), the process-wide default alone, or an explicit keyword
    # against a process-wide default that says the opposite
    if i % 5 == 3:
        layout['via_defaults'] = True
    elif i % 5 == 4:
        layout['defaults_opposite'] = True
    elif i % 5 == 1:
        layout['zero_style'] = ('late', 'int')[(i // 5) % 2]      # the public attribute set after construction / zero_mode=1, 0
    return layout


def warm(run, w, r, uniq, n=6):
    for m in gen_history(r, w.layout, n, uniq):
        # valid-biased prefix so that the state is non-trivial; mismatches here are C04's business but are still reported
        step(run, w, m, {'phase': 'prefix', 'layout': w.layout, 'm': m})
    if r.random() < 0.2:
        # the application swaps one of its tables for another (smaller or shifted) block at run time: context.register(fc, fx, block)
        from pymodbus.datastore import ModbusSequentialDataBlock
        t, fc = r.choice([('h', 3), ('c', 1), ('i', 4), ('d', 2)])
        start, n = r.choice([0, 1, 2, 5]), r.choice([1, 3, 8])
        vals = [(r.random() < 0.5) if t in 'cd' else r.randrange(65536) for _ in range(n)]
        blk = ModbusSequentialDataBlock(start, list(vals))
        w.slave.register(fc, t, blk)
        w.blocks[w.uid][t] = blk
        off = 0 if w.layout['zero_mode'] else 1
        w.tgt.t[t] = {start + k - off: v for k, v in enumerate(vals) if 0 <= start + k - off <= 0xFFFF}
        run.count('tables_replaced_at_run_time')
    if r.random() < 0.25:
        # the application resets its datastore between requests: values go back to zero, the table extents stay what they were
        w.slave.reset()
        w.tgt.reset()
        run.count('context_resets')
        if w.dump() != w.model.dump():
            run.violation('reset:store', {'phase': 'reset', 'layout': w.layout}, 'after ModbusSlaveContext.reset() the store differs from the model: %s' % _diff(w.dump(), w.model.dump()))


def sweep_fc5(run, r, uniq):
    w = World(small_layout(r, 1))
    warm(run, w, r, uniq)
    lo, hi, cells = layout_addresses(w.layout['units'][1], w.layout['zero_mode'])['c']
    stepv = 1 if run.thorough or run.shard is None else 1
    for v in range(0, 0x10000, stepv):
        if not run.mine(v):
            continue
        a = cells[v % len(cells)] if v % 3 else min(0xFFFF, hi + 1 + v % 2)
        m = {'dir': REQ, 'fc': 5, 'address': a, 'value': v}
        case = {'kind': 'sweep', 'layout': w.layout, 'm': m, 'note': 'state differs from the initial layout (preceding history not recorded)'}
        ok = step(run, w, m, case)
        run.case(h64(('fc5', v, a)), True, sample={'request': m, 'verdict': 'agrees' if ok else 'differs'}, sample_class=('fc5', v in (0, 0xFF00)))


def sweep_quantities(run, r, uniq):
    idx = 0
    for li in range(4):
        layout = small_layout(r, li)
        w = World(layout)
        warm(run, w, r, uniq)
        addrs = layout_addresses(layout['units'][1], layout['zero_mode'])
        for fc in (1, 2, 3, 4):
            lo, hi, cells = addrs[TABLE_OF_FC[fc]]
            for q in list(range(0, LIMIT[fc] + 4)) + [0x7FFF, 0xFFFF]:
                idx += 1
                if not run.mine(idx) or (not run.thorough and li > 0 and q > 12 and q < LIMIT[fc] - 3):
                    continue
                m = {'dir': REQ, 'fc': fc, 'address': r.choice(cells), 'count': q}
                one(run, w, m, ('quantity', fc, q > LIMIT[fc] or q == 0))
        lo, hi, cells = addrs['c']
        for q in list(range(0, 1973)) + [0xFFFF]:
            idx += 1
            if not run.mine(idx) or (not run.thorough and li > 0 and 20 < q < 1960):
                continue
            # header says q coils; the data really present is consistent with it (byte count = ceil(q/8)) while representable
            bc = min(255, (q + 7) // 8)
            m = {'dir': REQ, 'fc': 15, 'address': r.choice(cells), 'count': q, 'byte_count': bc, 'bits': gen.bits(r, min(8 * bc, q if q <= 8 * bc else 8 * bc))}
            m['raw_data'] = S.pack_bits(m['bits']).ljust(bc, b'\x00')[:bc]
            one(run, w, m, ('quantity', 15, q > 1968 or q == 0))
        lo, hi, cells = addrs['h']
        for q in list(range(0, 128)) + [0xFFFF]:
            idx += 1
            if not run.mine(idx):
                continue
            n = min(q, 127)
            m = {'dir': REQ, 'fc': 16, 'address': r.choice(cells), 'count': q, 'byte_count': 2 * n, 'registers': gen.regs(r, n)}
            one(run, w, m, ('quantity', 16, q > 123 or q == 0))
            m = {'dir': REQ, 'fc': 23, 'read_address': r.choice(cells), 'read_count': q, 'write_address': r.choice(cells), 'registers': gen.regs(r, 2)}
            one(run, w, m, ('quantity', '23r', q > 125 or q == 0))
            n = min(q, 122)
            m = {'dir': REQ, 'fc': 23, 'read_address': r.choice(cells), 'read_count': 1, 'write_address': r.choice(cells), 'write_count': q,
                 'byte_count': 2 * n, 'registers': gen.regs(r, n)}
            one(run, w, m, ('quantity', '23w', q > 121 or q == 0))


def sweep_bytecounts(run, r, uniq):
    idx = 0
    for li in range(2):
        layout = small_layout(r, 10 + li)
        w = World(layout)
        warm(run, w, r, uniq)
        addrs = layout_addresses(layout['units'][1], layout['zero_mode'])
        for q in (1, 8, 9, 16, 24):
            for bc in range(0, 256):
                idx += 1
                if not run.mine(idx) or (not run.thorough and bc > 40 and bc % 5):
                    continue
                data = bytes(r.randrange(256) for _ in range(bc))
                m = {'dir': REQ, 'fc': 15, 'address': r.choice(addrs['c'][2]), 'count': q, 'byte_count': bc, 'bits': S.unpack_bits(data), 'raw_data': data}
                one(run, w, m, ('bytecount', 15, bc == (q + 7) // 8))
        for q in (1, 2, 3, 10):
            for bc in range(0, 256):
                idx += 1
                if not run.mine(idx) or (not run.thorough and bc > 40 and bc % 5):
                    continue
                data = bytes(r.randrange(256) for _ in range(bc))
                regs = S.unwords(data[:bc - bc % 2])
                m = {'dir': REQ, 'fc': 16, 'address': r.choice(addrs['h'][2]), 'count': q, 'byte_count': bc, 'registers': regs, 'raw_data': data}
                one(run, w, m, ('bytecount', 16, bc == 2 * q))
                m = {'dir': REQ, 'fc': 23, 'read_address': r.choice(addrs['h'][2]), 'read_count': 1, 'write_address': r.choice(addrs['h'][2]),
                     'write_count': q, 'byte_count': bc, 'registers': regs, 'raw_data': data}
                one(run, w, m, ('bytecount', 23, bc == 2 * q))


def sweep_addresses(run, r, uniq):
    n = run.scale(60, 16000)
    for li in range(n):
        layout = small_layout(r, li) if li % 3 else {'single': True, 'zero_mode': bool(li % 2), 'units': {1: SM.unit_layout(r, share=False, small=False)}}
        w = World(layout)
        warm(run, w, r, uniq, n=4)
        addrs = layout_addresses(layout['units'][1], layout['zero_mode'])
        for fc in gen.DATA_FCS:
            lo, hi, cells = addrs[TABLE_OF_FC[fc]]
            for a in sorted({max(0, lo - 1), lo, max(0, hi - 1), hi, min(0xFFFF, hi + 1), 0xFFFF, 0}):
                for q in (1, 2, hi - a + 1, hi - a + 2):
                    if q < 1 or q > 100:
                        continue
                    m = {'dir': REQ, 'fc': fc}
                    if fc in (1, 2, 3, 4):
                        m.update(address=a, count=q)
                    elif fc == 5:
                        m.update(address=a, value=r.choice([0, 0xFF00]))
                    elif fc == 6:
                        m.update(address=a, value=gen.word(r))
                    elif fc == 15:
                        m.update(address=a, bits=gen.bits(r, q))
                    elif fc == 16:
                        m.update(address=a, registers=gen.regs(r, q))
                    elif fc == 22:
                        m.update(address=a, and_mask=gen.word(r), or_mask=gen.word(r))
                    else:
                        if r.random() < 0.5:
                            m.update(read_address=a, read_count=q, write_address=r.choice(cells), registers=gen.regs(r, 1))
                        else:
                            m.update(read_address=r.choice(cells), read_count=1, write_address=a, registers=gen.regs(r, q))
                    one(run, w, m, ('address', fc))


def sweep_function_codes(run, r, uniq):
    w = World(small_layout(r, 3))
    warm(run, w, r, uniq)
    for fc in range(0, 256):
        if fc in S.SUPPORTED:
            continue
        for data in (b'', b'\x00\x01\x00\x02', bytes(r.randrange(256) for _ in range(r.randint(1, 20)))):
            m = {'dir': REQ, 'fc': fc, 'illegal': True}
            pdu = bytes([fc]) + data
            case = {'kind': 'fc', 'layout': w.layout, 'm': m, 'pdu': pdu}
            ok = step(run, w, m, case, pdu=pdu)
            run.case(h64(('fc', pdu)), True, sample={'pdu': pdu.hex(), 'verdict': 'agrees' if ok else 'differs'}, sample_class=('fc', fc >= 0x80))


def front_function_codes(run, r):
    """unassigned function codes and over-limit quantities through the real server objects while a second server of the process
    serves vendor function codes and a lenient FC3 of its own (custom_functions): exception 01 / 03 all the same"""
    w = World(small_layout(r, 3))
    uid = w.uid
    for front, framing in FRONTS:
        repo.reset_globals()
        probes = [bytes([fc]) + d for fc in (0x41, 0x55, 0x64, 0x09, 0x7F) for d in (b'', b'\x00\x01\x00\x02')]
        probes.append(S.encode({'dir': REQ, 'fc': 3, 'address': 0, 'count': 126}))
        probes.append(S.encode({'dir': REQ, 'fc': 3, 'address': 0, 'count': 200}))
        before = w.dump()
        for i, pdu in enumerate(probes):
            if framing in ('binary',) and any(b in (0x7B, 0x7D) for b in pdu):
                continue
            if framing == 'rtu' and pdu[0] not in (3,):
                continue                       # (the RTU framer sizes frames of unknown function codes by guesswork: C06/C11 matter)
            res = FE.feed(front, framing, w.ctx, [ADU.build(framing, uid, pdu, tid=i + 1)])
            got = res.out if front in FE.STREAM else b''.join(d for d, _ in res.datagrams)
            want = ADU.build(framing, uid, bytes([pdu[0] | 0x80, 3 if pdu[0] == 3 else 1]), tid=i + 1)
            run.count('front_function_code_probes')
            case = {'kind': 'front-fc', 'front': front, 'framing': framing, 'pdu': pdu, 'layout': w.layout}
            ok = got == want and w.dump() == before
            run.case(h64(('front-fc', front, framing, pdu)), True, sample={'front': front, 'framing': framing, 'pdu': pdu.hex(), 'verdict': 'agrees' if ok else 'differs'},
                     sample_class=('front-fc', front))
            if not ok:
                run.violation('front-fc:%s/%s:%s' % (front, framing, 'fc3-limit' if pdu[0] == 3 else 'unassigned'), case,
                              'request %s answered with %s, expected %s%s' % (pdu.hex(), got.hex(), want.hex(), '' if w.dump() == before else '; the store changed'))
                before = w.dump()


def one(run, w, m, cls):
    case = {'kind': 'sweep', 'layout': w.layout, 'm': m, 'note': 'state differs from the initial layout (preceding history not recorded)'}
    try:
        pdu = S.encode(m)
    except S.SpecError:
        return
    ok = step(run, w, m, case, pdu=pdu)
    run.case(h64((cls, pdu)), True, sample={'class': list(map(str, cls)), 'request': {k: v for k, v in m.items() if k not in ('bits', 'registers', 'raw_data')},
                                           'pdu': pdu.hex()[:60], 'verdict': 'agrees' if ok else 'differs'}, sample_class=cls)


# ------------------------------------------------------------------ datastore failure injection
class Injector(object):
    """makes the k-th datastore call of the next request raise, before delegating"""

    # what a failing datastore may raise: any exception class (a dict-backed block raises KeyError, a list-backed one IndexError,
    # a remote one OSError / TimeoutError ...); the property demands exception 04 whatever the class
    CLASSES = [RuntimeError, KeyError, IndexError, ValueError, TypeError, OSError, TimeoutError, AttributeError, ZeroDivisionError, LookupError]
    exc_class = RuntimeError

    def __init__(self, blocks):
        self.armed = None
        self.calls = 0
        self.fired = False
        self.log = []
        seen = set()
        for t, b in blocks.items():
            if id(b) in seen:
                continue
            seen.add(id(b))
            for name in ('validate', 'getValues', 'setValues'):
                setattr(b, name, self.wrap(name, getattr(b, name)))

    def wrap(self, name, fn):
        def call(*a, **k):
            if self.armed is not None:
                self.log.append(name)
                if self.calls == self.armed:
                    self.calls += 1
                    self.fired = True
                    raise self.exc_class('injected datastore failure in %s' % name)
                self.calls += 1
            return fn(*a, **k)
        return call


FRONTS = [('sync-tcp', 'tcp'), ('sync-serial', 'rtu'), ('sync-serial', 'ascii'), ('sync-udp', 'tcp'), ('aio-tcp', 'tcp'), ('aio-udp', 'tcp'), ('tw-tcp', 'tcp')]
SAFE_POINTS = {1: 2, 2: 2, 3: 2, 4: 2, 5: 2, 6: 2, 15: 2, 16: 2, 22: 3, 23: 3}   # calls before the first completed setValues


def injection(run, r, uniq):
    n = run.scale(260, 60000)
    for i in range(n):
        layout = small_layout(r, i)
        w = World(layout)
        inj = Injector(w.blocks[w.uid])
        inj.exc_class = Injector.CLASSES[(i // len(FRONTS)) % len(Injector.CLASSES)]
        front, framing = FRONTS[i % len(FRONTS)]
        hist = gen_history(r, layout, 5, uniq)
        m = hist[-1]
        if w.tgt.copy().execute(m)['fc'] >= 0x80:
            continue                     # the injected request must be a valid one
        k = r.randrange(SAFE_POINTS[m['fc']])
        case = {'kind': 'inject', 'layout': layout, 'history': hist, 'front': front, 'framing': framing, 'k': k, 'exc': inj.exc_class.__name__}
        ok = inject_case(run, w, inj, hist, front, framing, k, case)
        run.case(h64(repr(case)), True, sample={'front': front, 'framing': framing, 'request': m, 'failing_call': k, 'raises': inj.exc_class.__name__, 'verdict': 'agrees' if ok else 'differs'},
                 sample_class=('inject', front))


def inject_case(run, w, inj, hist, front, framing, k, case):
    repo.reset_globals()
    uid = w.uid
    pre = [ADU.build(framing, uid, S.encode(m), tid=i + 1) for i, m in enumerate(hist[:-1])]
    for m in hist[:-1]:
        w.tgt.execute(m)
    FE.feed(front, framing, w.ctx, pre)
    before = w.dump()
    if before != w.model.dump():
        run.count('inject_prefix_diverged')
        return None
    m = hist[-1]
    inj.armed, inj.calls, inj.fired = k, 0, False
    res = FE.feed(front, framing, w.ctx, [ADU.build(framing, uid, S.encode(m), tid=77)])
    inj.armed = None
    after = w.dump()
    run.count('injections')
    if not inj.fired:
        run.count('injection_not_reached')
        return None
    want = ADU.build(framing, uid, bytes([m['fc'] | 0x80, 4]), tid=77)
    got = res.out if front in FE.STREAM else b''.join(d for d, _ in res.datagrams)
    tag = '%s/%s' % (front, framing)
    if res.escaped:
        run.violation('inject:%s:escaped' % tag, case, 'datastore failure escaped the front-end: %r' % res.escaped[:1])
        return False
    if got != want:
        run.violation('inject:%s:response' % tag, case, 'datastore failure in call %d (%s) of %s answered with %s, expected exception 04 %s' % (k, inj.log[-1:], _sh(m), got.hex(), want.hex()))
        return False
    if after != before:
        run.violation('inject:%s:store-changed' % tag, case, 'exception 04 sent but the store changed: %s' % _diff(after, before))
        return False
    run.count('expect:4')
    return True


def run(run):
    r = run.rng('main')
    uniq = [0]
    run.rule = ('case = one raw request PDU (FC1-6,15,16,22,23 with swept quantity / byte count / value / address fields, or an unassigned function code) executed after a '
                'non-trivial history on a random layout, or one datastore failure injected behind a front-end; response compared with the model '
                '(01/02/03/04 with fc|0x80) and the full store compared before/after; distinct = (class, PDU bytes); all non-trivial (state is never the initial one)')
    run.assumptions = ['register-file model with the v1.1b3 validation order (03 before 02)', 'requests are length-consistent on the wire (decode of truncated PDUs is C12)',
                       'a failing datastore raises before delegating and before any completed write of the same request']
    sweep_fc5(run, r, uniq)
    sweep_quantities(run, r, uniq)
    sweep_bytecounts(run, r, uniq)
    sweep_addresses(run, r, uniq)
    if run.mine(1):
        sweep_function_codes(run, r, uniq)
        front_function_codes(run, r)
    injection(run, r, uniq)
    fl = (lambda q: q) if run.shard is None else (lambda q: max(1, q // 40))
    for code, q in ((1, 300), (2, 1000), (3, 5000), (4, 100), (0, 3000)):
        run.floor('requests whose expected answer is %s' % ('normal' if code == 0 else 'exception %02d' % code), run.counters.get('expect:%d' % code, 0), fl(q))
    run.floor('store before/after comparisons', run.counters.get('store_comparisons', 0), fl(20000))
    repo.reset_globals()


def replay(run, case):
    lay = case['layout']
    lay['units'] = {int(k): v for k, v in lay['units'].items()}
    if case['kind'] == 'front-fc':
        front_function_codes(run, run.rng('main'))      # (the whole probe set is replayed: it is small and needs no history)
    elif case['kind'] == 'inject':
        w = World(lay)
        inj = Injector(w.blocks[w.uid])
        inj.exc_class = {c.__name__: c for c in Injector.CLASSES}.get(case.get('exc', 'RuntimeError'), RuntimeError)
        print(inject_case(run, w, inj, case['history'], case['front'], case['framing'], case['k'], case))
    else:
        w = World(lay)
        print('note: replay runs the request on the initial layout state')
        print('agrees' if step(run, w, case['m'], case, pdu=case.get('pdu')) else 'differs')
    run.evaluations += 1
