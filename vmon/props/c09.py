"""C09 - server sends exactly one matching response per accepted request.

Trace checker over the bytes a front-end writes for a request history: parsed strictly by the
reference receivers, the response sequence must be, in request order, one response per
answerable request carrying its tid (TCP), unit id and function code (or |0x80) - and, for
data-access requests, the model's PDU; nothing for broadcast / ignored missing units /
listen-only; no other bytes."""
from .. import frontends as FE
from .. import serverhist as SH
from ..core import h64

LEVEL = 'exploration'
SHARDS = {'thorough': 16}
ANCHORS = ['pymodbus/server/sync.py', 'pymodbus/server/async_io.py', 'pymodbus/server/asynchronous.py', 'pymodbus/framer/__init__.py']

EXCUSES = {
    'broadcast-stops-at-failing-unit': ({'wrong-content'}, 'a broadcast write stops at the first unit whose datastore raises: later reads of the units behind it return the old values'),
    'rtu-one-frame-per-call': ({'missing'}, 'RTU framer handles one frame per read: later frames of a pipelined read are answered late or never'),
    'binary-pipelined-frame-skipped': ({'missing'}, 'binary framer skips every second back-to-back frame'),
    'foreign-unit-frame-discards-rest-of-read': ({'missing'}, 'a frame for a non-hosted unit makes the framer discard the rest of that read'),
    'binary-delimiter-in-body': ({'missing', 'closed'}, 'a binary request frame containing 0x7B/0x7D is not received intact'),
    'twisted-listen-only-is-permanent': ({'missing'}, 'Twisted front-end stays silent after force-listen-only'),
}


def check(run, case):
    ex = SH.execute(case)
    res = ex['res']
    regs = SH.regions(case)
    if (case.get('failing') and case['flags'].get('broadcast_enable') and not case['layout']['single'] and len(case['layout']['units']) >= 2
            and any(fr[0] == 0 and fr[2]['fc'] in (5, 6, 15, 16, 22, 23) for rd in case['reads'] for fr in rd)):
        regs = set(regs) | {'broadcast-stops-at-failing-unit'}
    for slug in regs:
        run.region(slug)
    if not regs:
        run.count('clean_region_cases')
    tag = '%s/%s' % (case['front'], case['framing'])
    run.count('histories:%s' % case['front'])
    run.count('requests', len(ex['exp']))
    run.count('response_frames_parsed', len(ex['out_frames']))
    kinds = {}
    if ex['parse_error']:
        kinds['not-a-response'] = 'output is not a sequence of response frames: %s (output %s)' % (ex['parse_error'], res.out.hex()[:80])
    tail = bool(case.get('tail_malformed'))     # the history ends with a frame no server can decode: closing after it is in order
    for e in res.escaped:
        if not tail:
            kinds['escaped:%s' % type(e).__name__] = 'exception left the serving entry: %r' % (e,)
    if res.stuck:
        kinds['stuck'] = 'the handler spins'
    if res.closed and case['front'] in FE.STREAM and not tail:
        kinds['closed'] = 'the front-end closed the connection during a history of valid requests'
    problems, matched = SH.match(case['framing'], ex['exp'], ex['out_frames'])
    run.count('responses_matched', matched)
    for k, text in problems:
        kinds.setdefault(k, text)
    if not kinds:
        return True
    allowed = set()
    for slug in regs:
        allowed |= EXCUSES.get(slug, (set(), ''))[0]
    if allowed and any(s in SH.LOSSY for s in regs):
        allowed.add('wrong-content')          # a lost write request makes later read contents differ from the model
    left = set(kinds) - allowed
    if not left:
        for slug in sorted(regs):
            if slug in EXCUSES and set(kinds) & EXCUSES[slug][0]:
                run.known(slug, EXCUSES[slug][1], case)
        return False
    run.violation('%s:%s:%s' % (tag, '+'.join(sorted(left)), 'clean' if not regs else 'in-' + '+'.join(sorted(regs))), case,
                  '; '.join('%s: %s' % (k, kinds[k]) for k in sorted(left))[:900])
    return False


def run(run):
    r = run.rng('main')
    uniq = [0]
    run.rule = ('case = (front-end, framing, single/multi-unit layout, ignore_missing_slaves, broadcast_enable, request history grouped 1..3 frames per read); '
                'oracle: strict parse of all output + in-order matching of responses to requests by tid/unit/fc (+ model PDU for data access); '
                'distinct = whole case; non-trivial = history has >= 2 requests')
    run.assumptions = ['reference receivers parse the output', 'register-file model predicts data-access responses', 'requests after a force-listen-only request are not judged']
    n = run.scale(90, 24000)
    for front, framing in SH.FRONT_FRAMINGS:
        for i in range(n):
            case = SH.gen_case(r, front, framing, uniq, max_per_read=1 if framing == 'tls' else 3)
            if i % 10 == 7 and framing in ('tcp', 'ascii'):
                # long pipelined bursts: up to 40 requests per read, up to the 1024 bytes the threaded handlers ask for per call
                case = SH.cap_reads(SH.gen_case(r, front, framing, uniq, max_per_read=40, nreq=r.choice([40, 80])))
                run.count('histories_with_long_bursts')
            if i % 25 == 24 and not front.startswith('tw'):
                # a force-listen-only request: must not be answered
                case['reads'].insert(len(case['reads']) // 2, [[int(next(iter(case['layout']['units']))), 7, {'dir': 'req', 'fc': 8, 'sub': 4, 'data': [0]}]])
            if framing == 'tls':                 # TLS carries no unit id: every request reaches the server as unit 0
                for rd in case['reads']:
                    for fr in rd:
                        fr[0] = 0
            if i % 9 == 5 and framing == 'tcp' and front in ('sync-tcp', 'aio-tcp', 'tw-tcp') and case['layout']['single']:
                # the last read ends with a well-framed request whose PDU is cut short (quantity 3, two data bytes): whatever a
                # front-end does about that one, the requests received before it - in the same read - have been accepted and are answered
                case['tail_malformed'] = True
                run.count('histories_ending_in_malformed_frame')
            if i % 3 == 2 and framing != 'tls' and front in ('aio-tcp', 'aio-udp', 'sync-udp', 'tw-udp', 'sync-tcp'):
                # datagrams from several senders; several reads queued before the asyncio handler task runs; idle periods longer
                # than the receive timeout of a threaded TCP connection (between two whole reads, so no frame is cut by them)
                SH.add_delivery(r, case)
                run.count('histories_with_delivery_pattern')
            if i % 6 == 4 and framing != 'tls':
                # one hosted unit has a failing datastore: its requests are answered with exception 04 (03 for quantity errors),
                # whatever exception class the datastore raises and whatever ignore_missing_slaves says; a broadcast stays unanswered
                SH.add_failing(r, case, i // 6)
                run.count('histories_with_failing_datastore')
            ok = check(run, case)
            nreq = sum(len(rd) for rd in case['reads'])
            run.case(h64(repr(case)), nreq >= 2,
                     sample={'front': front, 'framing': framing, 'single': case['layout']['single'], 'hosted': sorted(case['layout']['units']), 'flags': case['flags'],
                             'reads': [[(u, t, m['fc']) for u, t, m in rd] for rd in case['reads']][:6], 'delivery': case.get('delivery'), 'verdict': 'one matching response per request' if ok else 'differs'},
                     sample_class=(front, framing))
    if run.shard in (None, 0):
        # concurrent connections of the threaded sync server, pre-empted at every source line: every connection must still get
        # exactly the responses to its own requests (those it gets when it is alone, which the trace checker judged above)
        from .c17 import fine_isolation
        fine_isolation(run, r, uniq, run.scale(30, 1000), prop='C09')
    if run.thorough and run.shard in (None, 0):
        from . import loopback
        loopback.histories(run, r, uniq, 160)
        loopback.datagram_histories(run, r, uniq, 120)
        loopback.datagram_histories(run, r, uniq, 60, big=True)
    run.floor('histories per front-end (min)', min(run.counters.get('histories:%s' % f, 0) for f in FE.ALL), 80 if run.shard is None else 5)
    run.floor('clean-region histories', run.counters.get('clean_region_cases', 0), 500 if run.shard is None else 30)
    run.floor('responses matched to requests', run.counters.get('responses_matched', 0), 3000 if run.shard is None else 200)


def replay(run, case):
    case['layout']['units'] = {int(k): v for k, v in case['layout']['units'].items()}
    if 'fine_seed' in case:
        from .c17 import fine_one
        fine_one(run, case, case['framing'], case['fine_seed'])
        run.evaluations += 1
        return
    print('ok' if check(run, case) else 'differs')
    run.evaluations += 1
