"""C08 - synchronous client returns only the reply to its own request.

The real ModbusTcpClient (socket framer and RTU/ASCII/binary over TCP) and ModbusSerialClient
(rtu/ascii/binary) run on the OS doubles against the scripted reference server, which can
prepend / substitute well-formed frames that belong to another transaction, unit or
function.  Replies carry values that identify them (unique addresses / values), so the
monitor can tell which frame the returned object was decoded from."""
import json

from .. import adapters as A
from .. import gen
from .. import repo
from ..core import h64
from ..doubles import clientio as IO
from ..doubles import peers as P
from ..spec import pdu as S
from ..spec import adu as ADU
from ..spec.pdu import REQ, RSP
from .c06 import BAD_KINDS
from .c01 import kind_of

from pymodbus.exceptions import ModbusException
from pymodbus.pdu import ExceptionResponse

LEVEL = 'exploration'
SHARDS = {'thorough': 16}
ANCHORS = ['pymodbus/transaction.py', 'pymodbus/client/sync.py', 'pymodbus/framer/__init__.py', 'pymodbus/framer/socket_framer.py',
           'pymodbus/framer/rtu_framer.py', 'pymodbus/framer/ascii_framer.py', 'pymodbus/framer/binary_framer.py']
KINDS = ['tcp', 'rtu-over-tcp', 'ascii-over-tcp', 'binary-over-tcp', 'rtu', 'ascii', 'binary']
REQ_FCS = [1, 2, 3, 4, 5, 6, 15, 16, 22, 23, 7, 11, 12, 17, 20, 21, 24, 43, 8]


def gen_request(r, n):
    """request #n of a history: addresses / values identify the transaction"""
    fc = r.choice(REQ_FCS)
    a = (1000 + 37 * n) & 0xFFFF
    if fc in (1, 2, 3, 4):
        if r.random() < 0.15:
            # replies up to the largest the specification allows ("all reply contents")
            big = r.choice([60, 62, 100, 124, 125]) if fc in (3, 4) else r.choice([900, 977, 1500, 1993, 2000])
            return {'dir': REQ, 'fc': fc, 'address': a, 'count': big}
        return {'dir': REQ, 'fc': fc, 'address': a, 'count': r.randint(1, 6)}
    if fc == 5:
        return {'dir': REQ, 'fc': 5, 'address': a, 'value': r.choice([0, 0xFF00])}
    if fc == 6:
        return {'dir': REQ, 'fc': 6, 'address': a, 'value': (n * 131 + 7) & 0xFFFF}
    if fc == 15:
        return {'dir': REQ, 'fc': 15, 'address': a, 'bits': gen.bits(r, r.randint(1, 12))}
    if fc == 16:
        return {'dir': REQ, 'fc': 16, 'address': a, 'registers': [(n * 131 + j) & 0xFFFF for j in range(r.randint(1, 4))]}
    if fc == 22:
        return {'dir': REQ, 'fc': 22, 'address': a, 'and_mask': gen.word(r), 'or_mask': (n * 3) & 0xFFFF}
    if fc == 23:
        return {'dir': REQ, 'fc': 23, 'read_address': a, 'read_count': r.choice([1, 2, 3, 4, 70, 125]), 'write_address': a + 10, 'registers': [(n * 17) & 0xFFFF]}
    if fc == 8:
        sub = r.choice([0, 0, 11, 12, 13, 14])
        return {'dir': REQ, 'fc': 8, 'sub': sub, 'data': [(n * 257 + 1) & 0xFFFF]}
    return gen.message(r, REQ, fc, small=True)


def foreign_msg(r, own_reply):
    """a well-formed response that differs from the own reply in content (same or other function code)"""
    if r.random() < 0.5 and own_reply['fc'] < 0x80:
        m = dict(own_reply)           # same function code, recognisably different content
        if 'registers' in m:
            m['registers'] = [(x ^ 0x5A5A) & 0xFFFF for x in m['registers']] or [0x5A5A]
        elif 'bits' in m:
            m['bits'] = [not b for b in S.pad_bits(m['bits'])] or [True] * 8
        elif 'value' in m and m['fc'] == 6:
            m['value'] ^= 0x5A5A
        elif 'address' in m:
            m['address'] ^= 0x0F0F
        elif 'status' in m and m['fc'] == 7:
            m['status'] ^= 0xFF
        else:
            m = {'dir': RSP, 'fc': 3, 'registers': [0xDEAD, 0xBEEF]}
        if S.norm(m) != S.norm(own_reply):
            return m, 'content'
    fc = r.choice([f for f in (3, 4, 6, 16) if f != own_reply['fc'] & 0x7F])
    if fc in (3, 4):
        return {'dir': RSP, 'fc': fc, 'registers': [0xDEAD, 0xBEEF]}, 'fc'
    if fc == 6:
        return {'dir': RSP, 'fc': 6, 'address': 0xDEAD, 'value': 0xBEEF}, 'fc'
    return {'dir': RSP, 'fc': 16, 'address': 0xDEAD, 'count': 2}, 'fc'


def make_script(r, kind, unit, own_reply_msg):
    """one transaction's peer behaviour + what identifies the foreign frame"""
    framing = IO.framing_of(kind)
    x = r.random()
    if x < 0.30:
        return {'kind': 'own'}, None
    if x < 0.35 and (kind == 'tcp' or kind.endswith('-over-tcp')):
        # (TCP transports only: a serial line delivers a frame without gaps, TCP may segment anywhere)
        # the conformant reply, arriving in two segments a fraction of the timeout apart (first segment shorter than a header)
        return {'kind': 'split', 'k': r.randint(1, 7), 'delay': r.choice([0.05, 0.2, 0.4])}, None
    if x < 0.45:
        return {'kind': 'exception', 'code': r.choice([1, 2, 3, 4, 6, 10, 11])}, None
    fm, how = foreign_msg(r, own_reply_msg)
    b = {'msg': fm}
    tags = set()
    if how == 'fc':
        tags.add('foreign-fc')
    y = r.random()
    if framing == 'tcp' and y < 0.5:
        b['tid_delta'] = r.choice([-1, 1, -2, 7, 0x8000])
        tags.add('foreign-tid')
    elif y < 0.8:
        b['unit'] = r.choice([u for u in (1, 2, 3, 17, 247) if u != unit])
        tags.add('foreign-unit')
    if not tags:
        tags.add('foreign-content-same-ids')      # same tid/unit/fc but not the server's answer: e.g. a duplicate of an older reply
        b['tid_delta'] = 1 if framing == 'tcp' else 0
        if framing == 'tcp':
            tags = {'foreign-tid'}
        else:
            b['unit'] = (unit % 200) + 1
            tags = {'foreign-unit'}
    b['kind'] = r.choice(['stale+own', 'stale+own', 'frame'])
    return b, {'msg': fm, 'tags': sorted(tags)}


def classify_result(result, own_msg, foreign, req_unit, req_tid, framing):
    if isinstance(result, ModbusException):
        return 'error'
    if isinstance(result, (bytes, str)) or result is None or not hasattr(result, 'function_code'):
        return 'other:%s' % type(result).__name__
    try:
        got = A.extract(result)
    except Exception:  # noqa
        return 'other:unreadable'
    if own_msg is not None:
        k = kind_of(own_msg)
        if got['fc'] == own_msg['fc'] and (k in BAD_KINDS or A.same(got, own_msg, pad=True)):
            return 'own'
    if foreign is not None and got['fc'] == foreign['msg']['fc'] and A.same(got, foreign['msg'], pad=True):
        return 'foreign'
    return 'other:%s' % type(result).__name__


def regions(kind, framing, unit, m, own_frame, foreign):
    out = set()
    if foreign:
        t = set(foreign['tags'])
        if 'foreign-tid' in t and framing == 'tcp':
            out.add('tcp-reply-tid-unchecked')
        if 'foreign-fc' in t:
            out.add('reply-fc-unchecked')
        if 'foreign-unit' in t and unit in (0, 255):
            out.add('unit-0-or-255-accepts-any-unit')
    if framing == 'binary' and own_frame and any(b in (0x7B, 0x7D) for b in own_frame[1:-1]):
        out.add('binary-delimiter-in-body')
    if framing == 'rtu' and m['fc'] == 8 and len(m['data']) != 1:
        out.add('rtu-diag-fixed-size')
    return out


def _snapshot(obj):
    try:
        return (obj.unit_id, obj.transaction_id, repr(A.extract(obj)))
    except Exception as e:  # noqa
        return ('unreadable', repr(e))


def run_history(run, case):
    """one client, a history of transactions; returns number of transactions that violated"""
    if case.get('defaults_unit') and not case.get('_inner'):
        # the application has set the process-wide default unit id to the unit it talks to (and still passes unit= explicitly)
        from pymodbus.constants import Defaults
        old = Defaults.UnitId
        Defaults.UnitId = case['unit']
        try:
            return run_history(run, dict(case, _inner=True))
        finally:
            Defaults.UnitId = old
    kind, unit, txs = case['client'], case['unit'], case['transactions']
    framing = IO.framing_of(kind)
    peer = P.ScriptedPeer(framing, script=[t['behaviour'] for t in txs], timeout=1.0)
    env = IO.Env(peer)
    repo.reset_globals()
    bad = 0
    poisoned = False
    kept = []
    with IO.installed(env):
        client = IO.make_client(kind, timeout=1.0, **({'broadcast_enable': True} if case.get('broadcast_enable') else {}))
        if case.get('tid_start') is not None:
            client.transaction.tid = case['tid_start']
        for i, t in enumerate(txs):
            m = t['m']
            req = A.build(m, unit=unit)
            nreq = len(peer.requests)
            env.ops = 0                   # the transport-operation bound is per transaction
            if len(env.trace) > 5000:
                del env.trace[:]
            try:
                result = client.execute(req)
                exc = None
            except IO.StepWatchdog as e:
                run.violation('unbounded:%s' % kind, case, 'transaction %d: %r' % (i, e))
                return bad + 1
            except Exception as e:  # noqa
                result, exc = None, e
            run.count('transactions:%s' % kind)
            if len(peer.requests) == nreq:
                run.count('request_not_seen_by_peer')
                continue
            f = peer.requests[-1][1]
            beh = t['behaviour']
            own_msg = P.conformant_reply(peer.regfile, f.msg) if beh['kind'] in ('own', 'split', 'stale+own', 'two', 'own+extra') else (
                {'dir': RSP, 'fc': m['fc'] | 0x80, 'code': beh.get('code', 2)} if beh['kind'] == 'exception' else None)
            # note: conformant_reply on a lazy register file is idempotent for reads; for writes it re-applies the same values
            own_frame = ADU.build(framing, unit, S.encode(own_msg), tid=f.tid or 0) if own_msg else None
            foreign = t.get('foreign')
            regs = regions(kind, framing, unit, m, own_frame, foreign)
            if poisoned and kind in ('tcp', 'rtu-over-tcp', 'ascii-over-tcp', 'binary-over-tcp'):
                regs.add('tcp-unread-reply-bytes-poison-next-transaction')
            for slug in regs:
                run.region(slug)
            if not regs:
                run.count('clean_region_cases')
            if exc is not None:
                cls = 'raised:%s' % type(exc).__name__
            else:
                cls = classify_result(result, own_msg, foreign, unit, f.tid, framing)
            run.count('result:%s' % cls.split(':')[0])
            ok = True
            why = None
            positive = beh['kind'] in ('own', 'exception', 'split') and not poisoned
            if cls.startswith('raised'):
                ok, why = False, 'execute raised %r' % (exc,)
            elif cls == 'foreign':
                ok, why = False, 'returned the frame that belongs to another transaction/unit/function (%s)' % foreign['tags']
            elif cls.startswith('other'):
                ok, why = False, 'returned %r which is neither the own reply, nor an error object' % (result,)
            elif positive and cls != 'own':
                ok, why = False, 'a single conformant reply was sent but the call returned %r' % (result,)
            elif cls == 'own':
                # ids of the returned object
                if framing == 'tcp' and result.transaction_id != req.transaction_id:
                    ok, why = False, 'returned object carries tid %r, request %r' % (result.transaction_id, req.transaction_id)
                elif framing in ('rtu', 'ascii', 'binary') and result.unit_id != unit and unit not in (0, 255):
                    ok, why = False, 'returned object carries unit %r, request %r' % (result.unit_id, unit)
            # what earlier calls returned stays what it was: a later transaction neither hands out the same object again nor rewrites
            # the ids / fields of an object the application already holds
            if cls == 'own' and ok:
                for j, obj, snap in kept:
                    now = _snapshot(obj)
                    if obj is result:
                        ok, why = False, 'returned the very object that transaction %d had returned' % j
                    elif now != snap:
                        ok, why = False, 'the object returned by transaction %d changed afterwards: %r -> %r' % (j, snap, now)
                    if not ok:
                        cls = 'other:earlier-result-touched'
                        break
                kept.append((i, result, _snapshot(result)))
                del kept[:-6]
                run.count('earlier_results_rechecked')
            # bytes left unread poison the next transaction on TCP-family clients (C13 finding)
            conn = env.conns[-1] if env.conns else None
            # (segments still in flight count too: a poisoned client returns before the late half of a split reply has arrived,
            # and that half then lands in a later transaction - virtual time advances only by microseconds per operation)
            poisoned = bool(conn and (conn.available() or conn.in_flight())) or (poisoned and cls != 'own')
            if conn is not None and not conn.available() and not conn.in_flight() and cls == 'own':
                poisoned = False
            if ok:
                continue
            bad += 1
            tcase = dict(case, failing_transaction=i)
            if excused(run, regs, cls, tcase):
                continue
            run.violation('%s:%s:%s' % (kind, cls.split(':')[0], 'clean' if not regs else 'in-' + '+'.join(sorted(regs))), tcase,
                          'transaction %d (%s, script %s): %s' % (i, kind_of(m), beh['kind'], why))
    return bad


def excused(run, regs, cls, case):
    if cls == 'foreign':
        for slug, what in (('tcp-reply-tid-unchecked', 'TCP client returns a reply carrying another transaction id'),
                           ('reply-fc-unchecked', 'client returns a reply with another function code'),
                           ('unit-0-or-255-accepts-any-unit', 'requests to unit 0/255 accept replies from any unit'),
                           ('tcp-unread-reply-bytes-poison-next-transaction', 'unread bytes of an earlier reply are taken as the answer of the next transaction')):
            if slug in regs:
                return run.known(slug, what, case)
    if cls.startswith('other:') and cls.endswith('Response') and 'binary-delimiter-in-body' in regs:
        return run.known('binary-delimiter-in-body', 'binary reply containing 0x7B/0x7D is decoded with the doubled bytes still in it', case)
    if (cls == 'own' or (cls.startswith('other:') and cls.endswith('Response'))) and 'tcp-unread-reply-bytes-poison-next-transaction' in regs:
        return run.known('tcp-unread-reply-bytes-poison-next-transaction', 'unread bytes of an earlier reply are taken as the answer of the next transaction', case)
    if cls in ('error',) or cls.startswith('raised'):
        for slug, what in (('binary-delimiter-in-body', 'binary reply containing 0x7B/0x7D is not received intact'),
                           ('rtu-diag-fixed-size', 'RTU framer assumes 8-byte diagnostic frames'),
                           ('tcp-unread-reply-bytes-poison-next-transaction', 'unread bytes of an earlier reply break the next transaction')):
            if slug in regs and (cls == 'error' or slug != 'rtu-diag-fixed-size'):
                return run.known(slug, what, case)
    return False


def gen_case(r, kind, ntx, tid_start=None, clean_only=False):
    unit = r.choice([1, 1, 2, 17, 247, 0, 255]) if not clean_only else r.choice([1, 2, 17])
    txs = []
    regfile = P.lazy_regfile()
    for n in range(ntx):
        m = gen_request(r, n)
        if txs and r.random() < 0.2:
            m = json.loads(json.dumps(txs[-1]['m'])) if 'records' not in txs[-1]['m'] else m      # polling: the same request again (byte-identical replies)
        own = P.conformant_reply(regfile, m) or {'dir': RSP, 'fc': 3, 'registers': [1]}
        beh, foreign = make_script(r, kind, unit, own) if not clean_only else ({'kind': r.choice(['own', 'own', 'exception']), 'code': 2}, None)
        txs.append({'m': m, 'behaviour': beh, 'foreign': foreign})
    case = {'client': kind, 'unit': unit, 'transactions': txs, 'tid_start': tid_start, 'defaults_unit': r.random() < 0.2}
    if unit != 0 and r.random() < 0.25:
        case['broadcast_enable'] = True       # the client was told that unit 0 is the broadcast address: every other unit is answered as before
    return case


def run(run):
    r = run.rng('main')
    run.rule = ('case = (client kind, unit id, history of 1..50 transactions each with a request and a scripted peer behaviour: own reply / own exception / foreign frame '
                '(other tid, unit or function code) before or instead of the own reply); every returned object is classified own / foreign / error by its content; '
                'distinct = whole history; non-trivial = history contains a foreign frame or >= 2 transactions')
    run.assumptions = ['scripted reference server (spec codec + reference ADU builder + register-file model)', 'OS doubles with pyserial / BSD-socket semantics in virtual time',
                       'positive clause only for calls whose received bytes are exactly one conformant reply']
    n = run.scale(2200, 250000)
    for kind in KINDS:
        for i in range(n):
            ntx = r.choice([1, 2, 5, 12, 50]) if i % 10 == 0 else r.choice([1, 2, 3, 5])
            case = gen_case(r, kind, ntx, tid_start=(65530 if i % 6 == 0 else None), clean_only=(i % 3 == 0))
            bad = run_history(run, case)
            run.case(h64(repr(case)), ntx >= 2 or any(t['foreign'] for t in case['transactions']),
                     sample={'client': kind, 'unit': case['unit'], 'tid_start': case['tid_start'],
                             'transactions': [{'fc': t['m']['fc'], 'script': t['behaviour']['kind'], 'foreign': (t['foreign'] or {}).get('tags')} for t in case['transactions'][:6]],
                             'verdict': 'every call returned its own reply or an error' if not bad else '%d calls differ' % bad},
                     sample_class=(kind, bool(bad)))
    leftover_histories(run, r)
    if run.thorough and run.shard in (None, 0):
        wrap_history(run, r)
    if run.thorough and run.shard in (None, 1):
        # the same client code against a real kernel socket and the real servers of this tree (no OS double)
        from . import loopclient
        loopclient.histories(run, r, [0], 25, prop='C08')
        run.floor('real-socket transactions', sum(v for k, v in run.counters.items() if k.startswith('loopclient_transactions:')), 500)
    run.floor('transactions per client kind (min)', min(run.counters.get('transactions:%s' % k, 0) for k in KINDS), 150 if run.shard is None else 10)
    run.floor('own replies returned', run.counters.get('result:own', 0), 800 if run.shard is None else 50)
    run.floor('clean-region transactions', run.counters.get('clean_region_cases', 0), 600 if run.shard is None else 40)
    repo.reset_globals()


def leftover_histories(run, r):
    """a reply followed in the same read by a checksum-valid frame the client decoder cannot decode (the receive call then
    fails after having stored the first frame), then a transaction that receives nothing: the second call must return an
    error object - not None, not the stored frame of the first transaction"""
    for kind in ('ascii', 'binary', 'ascii-over-tcp', 'binary-over-tcp'):
        framing = IO.framing_of(kind)
        for i in range(run.scale(12, 200)):
            unit = r.choice([1, 2, 17])
            extra = ADU.build(framing, unit, bytes([r.choice([0x63, 0x09, 0x41])]) + bytes([1, 2, 3][:r.randint(0, 3)]))
            if framing == 'binary' and any(b in (0x7B, 0x7D) for b in extra[1:-1]):
                continue
            m1 = gen.message(r, REQ, r.choice([7, 11, 12]), small=True)
            txs = [{'m': m1, 'behaviour': {'kind': 'own+extra', 'bytes': extra}, 'foreign': None},
                   {'m': gen_request(r, 2 + i), 'behaviour': {'kind': 'none'}, 'foreign': None},
                   {'m': gen_request(r, 3 + i), 'behaviour': {'kind': 'own'}, 'foreign': None}]
            case = {'client': kind, 'unit': unit, 'transactions': txs, 'tid_start': None, 'scenario': 'leftover'}
            bad = run_history(run, case)
            run.case(h64(repr(case)), True, sample={'client': kind, 'scenario': 'reply + undecodable frame, then silence, then a normal transaction',
                                                   'verdict': 'ok' if not bad else '%d calls differ' % bad}, sample_class=('leftover', kind))


def wrap_history(run, r):
    """really run the transaction id through the 16-bit wrap"""
    case = gen_case(r, 'tcp', 1, clean_only=True)
    m = {'dir': REQ, 'fc': 3, 'address': 5, 'count': 1}
    case['transactions'] = [{'m': dict(m, address=i & 0xFFFF), 'behaviour': {'kind': 'own'}, 'foreign': None} for i in range(65545)]
    bad = run_history(run, case)
    run.case(h64('wrap'), True, sample={'client': 'tcp', 'transactions': 65545, 'verdict': 'ok' if not bad else 'differs'}, sample_class='wrap')


def replay(run, case):
    if case.get('loopclient'):
        from . import loopclient
        case['layout']['units'] = {int(k): v for k, v in case['layout']['units'].items()}
        loopclient.one(run, case, 'C08')
        return
    for t in case['transactions']:
        m = t['m']
        if 'records' in m:
            m['records'] = [tuple(x) if isinstance(x, list) else x for x in m['records']]
    bad = run_history(run, case)
    print('transactions that differ:', bad)
    run.evaluations += 1
