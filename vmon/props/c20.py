"""C20 - device identification is returned completely, in pages that fit.

Harness: install an identity, then follow the request/response chain a client performs
(next_object_id fed back while more_follows == 0xFF) through
ServerDecoder -> execute -> encode -> ClientDecoder, and additionally carry every page through
the TCP and RTU framings (buildPacket -> fresh receiver).  Oracle: size bound, termination
(step bound), exactly-once completeness with exact values."""
from .. import repo
from ..core import h64
from ..spec import pdu as S
from ..spec import adu as ADU
from ..spec.pdu import REQ, RSP

from pymodbus.factory import ServerDecoder, ClientDecoder
from pymodbus.framer.socket_framer import ModbusSocketFramer
from pymodbus.framer.rtu_framer import ModbusRtuFramer
from pymodbus.pdu import ExceptionResponse

LEVEL = 'exploration'
SHARDS = {'thorough': 16}
ANCHORS = ['pymodbus/mei_message.py', 'pymodbus/device.py']
STEP_BOUND = 300
SD, CD = ServerDecoder(), ClientDecoder()

CATEGORY = {1: list(range(0, 3)), 2: list(range(0, 7)), 3: list(range(0, 7)) + list(range(0x80, 0x100))}


def as_bytes(v):
    return v if isinstance(v, bytes) else v.encode()


def expected_objects(identity, code, start):
    """None when only bound+termination are demanded for this (code, start)."""
    populated = {i: as_bytes(v) for i, v in identity.items() if len(v)}
    if code == 4:
        if start in populated:
            return [(start, populated[start])]
        return None
    cat = CATEGORY[code]
    if start != 0 and not (start in cat and start in populated):
        return None
    return [(i, populated[i]) for i in cat if i >= start and i in populated]


def follow_chain(run, case, via):
    """returns (pages, objects, terminated, problems)"""
    identity = {int(k): v for k, v in case['identity'].items()}
    code, start = case['code'], case['start']
    repo.set_identity(identity, case.get('order'), case.get('via', 'private'), not case.get('incremental'))
    objs, pages, oid = [], 0, start
    problems = []
    while True:
        if pages >= STEP_BOUND:
            return pages, objs, False, problems
        pages += 1
        req_pdu = S.encode({'dir': REQ, 'fc': 43, 'read_code': code, 'object_id': oid})
        try:
            req = SD.decode(req_pdu)
            rsp = req.execute(None)
            if isinstance(rsp, ExceptionResponse):
                problems.append(('exception', 'page %d: request (%d,%d) answered with exception %r' % (pages, code, oid, rsp.exception_code)))
                return pages, objs, True, problems
            pdu = bytes([rsp.function_code]) + rsp.encode()
        except Exception as e:  # noqa
            problems.append(('server-raised:%s' % type(e).__name__, 'page %d: %r' % (pages, e)))
            return pages, objs, True, problems
        run.count('pages')
        if len(pdu) > 253:
            problems.append(('pdu-too-long', 'page %d: response PDU is %d bytes' % (pages, len(pdu))))
        # client side: independent parse is the judge; pymodbus' client decoder must agree with it
        try:
            ref = S.decode(RSP, pdu)
        except S.SpecError as e:
            problems.append(('malformed-page', 'page %d: response %s is not a well-formed PDU: %s' % (pages, pdu.hex()[:60], e)))
            return pages, objs, True, problems
        try:
            dec = CD.decode(pdu)
            info = [(i, bytes(v)) for i, v in dec.information.items()]
            if (sorted(info) != sorted(ref['objects']) or dec.more_follows != ref['more'] or dec.next_object_id != ref['next']
                    or dec.read_code != ref['read_code']):
                problems.append(('client-decode-differs', 'page %d: client decoder sees %r/%r/%r, wire has %r/%r/%r'
                                 % (pages, info[:3], dec.more_follows, dec.next_object_id, ref['objects'][:3], ref['more'], ref['next'])))
        except Exception as e:  # noqa
            problems.append(('client-decode-raised:%s' % type(e).__name__, 'page %d: %r' % (pages, e)))
        if via:
            carry_through_framers(run, case, rsp, pdu, pages, problems)
        if ref['read_code'] != code:
            problems.append(('read-code-echo', 'page %d: read code %d in answer to %d' % (pages, ref['read_code'], code)))
        objs += ref['objects']
        if ref['more'] == 0xFF:
            oid = ref['next']
            continue
        return pages, objs, True, problems


def carry_through_framers(run, case, rsp, pdu, page, problems):
    """the page must survive the TCP and RTU framings unchanged (RTU needs the RDI-specific frame length rule)"""
    for name, cls in (('tcp', ModbusSocketFramer), ('rtu', ModbusRtuFramer)):
        try:
            rsp2 = CD.decode(pdu)           # fresh object per use
            rsp2.transaction_id, rsp2.unit_id, rsp2.protocol_id = 7, 5, 0
            pkt = cls(CD).buildPacket(rsp2)
            want = ADU.build(name, 5, pdu, tid=7)
            run.count('framer_pages')
            if pkt != want:
                problems.append(('framer-build:%s' % name, 'page %d: %s packet %s != reference %s' % (page, name, pkt.hex()[:80], want.hex()[:80])))
                continue
            got = []
            cls(CD).processIncomingPacket(pkt, got.append, [5], single=False)
            if len(got) != 1 or bytes([got[0].function_code]) + got[0].encode() != pdu:
                problems.append(('framer-roundtrip:%s' % name, 'page %d: %s receiver delivered %d messages / different bytes' % (page, name, len(got))))
        except Exception as e:  # noqa
            problems.append(('framer-raised:%s:%s' % (name, type(e).__name__), 'page %d: %r' % (page, e)))


def too_large(identity, code, start):
    """known region: a populated value longer than 244 bytes within the requested range"""
    if code == 4:
        ids = [start]
    else:
        ids = [i for i in CATEGORY[code]]
    return any(len(identity.get(i, '')) > 244 for i in ids)


def check(run, case, via=True):
    identity = {int(k): v for k, v in case['identity'].items()}
    code, start = case['code'], case['start']
    pages, objs, terminated, problems = follow_chain(run, case, via)
    region = too_large(identity, code, start)
    if region:
        run.region('object-too-large-for-any-page-never-terminates')
    else:
        run.count('clean_region_cases')
    ok = True
    run.count('chains')
    if pages > 1:
        run.count('multi_page_chains')

    def bad(kind, msg):
        nonlocal ok
        ok = False
        if region and kind in ('non-termination', 'missing-or-extra'):
            big = [i for i, v in identity.items() if len(v) > 244]
            got_ids = [i for i, _ in objs]
            # excused only in the exact form: an endless chain of pages / loss of objects from the oversized one on
            if kind == 'non-termination' or all(i >= min(big) for i in set(i for i, _ in (expected_objects(identity, code, start) or [])) - set(got_ids)):
                run.known('object-too-large-for-any-page-never-terminates',
                          'a populated value > 244 bytes produces an endless chain of empty more-follows pages', case)
                return
        run.violation('%s:code%d' % (kind, code), case, msg)

    for kind, msg in problems:
        bad(kind, msg)
    if not terminated:
        bad('non-termination', 'chain for code %d start %d did not terminate within %d pages' % (code, start, STEP_BOUND))
    exp = expected_objects(identity, code, start)
    if exp is not None and terminated and not any(k.startswith('server-raised') or k == 'exception' for k, _ in problems):
        run.count('completeness_checks')
        if sorted(objs) != sorted(exp):
            missing = [i for i, _ in exp if i not in [j for j, _ in objs]]
            dup = sorted(set(i for i, _ in objs if [j for j, _ in objs].count(i) > 1))
            bad('missing-or-extra', 'code %d start %d: chain returned ids %r, expected %r (missing %r, duplicated %r, %d pages)'
                % (code, start, [i for i, _ in objs][:20], [i for i, _ in exp][:20], missing[:10], dup[:10], pages))
    elif exp is not None and any(k == 'exception' for k, _ in problems):
        pass
    return ok, pages


LENGTHS = [0, 1, 2, 100, 120, 121, 122, 123, 243, 244]


def gen_identity(r, allow_245):
    ids = list(range(0, 7)) + list(range(0x80, 0x100))
    n = r.choice([0, 1, 2, 3, 5, 7, 10, 20])
    chosen = sorted(set(r.sample(range(0, 7), min(7, r.randint(0, 7))) + r.sample(range(0x80, 0x100), min(n, 128))))
    identity = {}
    style = r.random()
    for i in chosen:
        x = r.random()
        if style < 0.3:
            ln = r.choice(LENGTHS)
        elif style < 0.6:
            ln = r.randint(0, 60)
        else:
            ln = r.choice(LENGTHS) if x < 0.3 else r.randint(0, 244)
        if r.random() < 0.5:
            identity[i] = ''.join(r.choice('abcdefghijklmnopqrstuvwxyzABC0123456789 {}:') for _ in range(ln))
        else:
            identity[i] = bytes(r.randrange(256) for _ in range(ln))
    if allow_245 and chosen and r.random() < 0.06:
        i = r.choice(chosen)
        identity[i] = identity[i][:0] + (b'x' if isinstance(identity[i], bytes) else 'x') * 245
    return identity


def run(run):
    r = run.rng('main')
    run.rule = ('case = (identity: populated object ids with values, read code 1-4, start object id); the whole more-follows chain is followed; '
                'distinct = (identity, code, start); non-trivial = chain of >= 2 pages or >= 2 objects returned')
    run.assumptions = ['spec codec parses every page independently of pymodbus', 'identities use byte strings or ASCII text (one byte per character)']
    n = run.scale(1500, 300000)
    for i in range(n):
        identity = gen_identity(r, allow_245=True)
        populated = [k for k, v in identity.items() if len(v)]
        for code in (1, 2, 3, 4):
            starts = {0}
            if populated:
                starts |= set(r.sample(populated, min(len(populated), 3)))
                starts.add(populated[-1])
            starts.add(r.randrange(256))
            for start in sorted(starts):
                case = {'identity': identity, 'code': code, 'start': start, 'via': ('private', 'setitem', 'update', 'properties', 'constructor')[i % 5]}
                if i % 3 == 1:
                    # the application configured its objects in some other order than ascending id
                    order = sorted(identity)
                    r.shuffle(order)
                    case['order'] = order
                ok, pages = check(run, case, via=(i % 4 == 0))
                if i % 7 == 3 and case['via'] != 'constructor' and start == 0:
                    # the application changes its identity after it has been read: set one more object, change one, empty one
                    ident2 = dict(identity)
                    change = {}
                    free = [k for k in list(range(0, 7)) + list(range(0x80, 0x100)) if k not in ident2]
                    if free:
                        change[r.choice(free)] = 'late-%d' % i
                    if ident2:
                        k0 = r.choice(sorted(ident2))
                        change[k0] = b'' if isinstance(ident2[k0], bytes) else ''
                    ident2.update(change)
                    case2 = {'identity': ident2, 'code': code, 'start': start, 'via': case['via'], 'incremental': True, 'order': sorted(change), 'after': case}
                    # (incremental: only the changed objects are configured again, on top of what the first read left behind)
                    run.count('reconfigured_identity_reads')
                    ok2, _ = check(run, dict(case2, identity={k: ident2[k] for k in ident2}), via=False)
                run.case(h64(repr(case)), pages >= 2 or len(populated) >= 2,
                         sample={'identity': {k: (len(v), type(v).__name__) for k, v in identity.items()}, 'code': code, 'start': start, 'pages': pages,
                                 'verdict': 'held' if ok else 'differs'},
                         sample_class=(code, pages >= 2))
    repo.reset_globals()
    run.floor('chains followed', run.counters.get('chains', 0), 2000 if run.shard is None else 100)
    run.floor('multi-page chains', run.counters.get('multi_page_chains', 0), 300 if run.shard is None else 10)
    run.floor('completeness checks', run.counters.get('completeness_checks', 0), 1000 if run.shard is None else 50)


def replay(run, case):
    if case.get('after'):
        first = case['after']
        first['identity'] = {int(k): v for k, v in first['identity'].items()}
        check(run, first, via=False)            # the read that preceded the reconfiguration
    case['identity'] = {int(k): v for k, v in case['identity'].items()}
    ok, pages = check(run, case)
    print('held' if ok else 'differs', 'pages', pages)
    run.evaluations += 1
    repo.reset_globals()
