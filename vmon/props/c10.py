"""C10 - requests act only on the addressed unit; broadcast acts on all.

Multi-unit reference model (one register file per hosted unit) in lock-step with the real
server context behind every front-end; after each history the per-unit dumps of ALL units are
compared, and the responses are matched (a non-hosted unit is answered with nothing / 0x0A /
0x0B, a broadcast with nothing)."""
import copy

from .. import frontends as FE
from .. import gen
from .. import serverhist as SH
from .. import servermodel as SM
from ..core import h64
from ..spec.pdu import REQ

LEVEL = 'exploration'
SHARDS = {'thorough': 16}
ANCHORS = ['pymodbus/framer/__init__.py', 'pymodbus/datastore/context.py', 'pymodbus/server/sync.py', 'pymodbus/server/async_io.py',
           'pymodbus/server/asynchronous.py']
FRONTS = [('sync-tcp', 'tcp'), ('sync-serial', 'rtu'), ('sync-serial', 'ascii'), ('sync-serial', 'binary'), ('sync-tcp', 'ascii'),
          ('aio-tcp', 'tcp'), ('aio-tcp', 'rtu'), ('tw-tcp', 'tcp'), ('tw-tcp', 'ascii'), ('sync-udp', 'tcp'), ('aio-udp', 'tcp'), ('tw-udp', 'tcp')]


def check(run, case):
    ex = SH.execute(case)
    res, model, blocks = ex['res'], ex['model'], ex['blocks']
    regs = SH.regions(case)
    for slug in regs:
        run.region(slug)
    lossy = [s for s in regs if s in SH.LOSSY]
    if not regs:
        run.count('clean_region_cases')
    tag = '%s/%s' % (case['front'], case['framing'])
    run.count('histories:%s' % case['front'])
    real = SM.norm_dump(SM.dump(blocks, case['layout']['zero_mode']))
    want = model.dump()
    initial = SM.build_model(case['layout']).dump()
    run.count('unit_dumps_compared', len(real))
    kinds = {}
    hosted = sorted(real)
    flags = case['flags']
    # which units were addressed by a write (directly or by broadcast)?
    written = set()
    for rd in case['reads']:
        for unit, tid, m in rd:
            if m['fc'] in (5, 6, 15, 16, 22, 23):
                if flags.get('broadcast_enable') and unit == 0:
                    written |= set(hosted)
                elif case['layout']['single']:
                    written |= set(hosted)
                elif unit in hosted or any(unit == x % SM.RETIRED for x in hosted):
                    written |= {x for x in hosted if x % SM.RETIRED == unit}
    for idx, op, uid, lay in case.get('reconfig', []):
        if op != 'del':
            for x in real:
                if x % SM.RETIRED == uid or case['layout']['single']:
                    initial.setdefault(x, want[x] if x in written else None)
    for u in hosted:
        if u not in want:
            kinds['store'] = 'unit key %s exists on one side only' % (u,)
            continue
        if real[u] != want[u]:
            if initial.get(u) is not None and real[u] != initial[u] and u not in written:
                kinds['interference'] = 'unit %s was addressed by no write request but its tables changed: %s' % (u, _d(real, initial, u))
            elif lossy:
                kinds['store-diverged-after-lost-frame'] = 'unit %s differs from the model: %s' % (u, _d(real, want, u))
            else:
                kinds['store'] = 'unit %s differs from the model: %s' % (u, _d(real, want, u))
    for text in SM.aliasing_problems(blocks):
        kinds['store-aliasing'] = text
    run.count('aliasing_checks')
    problems, matched = SH.match(case['framing'], ex['exp'], ex['out_frames'])
    for k, text in problems:
        if k in ('answered-silent', 'gateway-code', 'unsolicited') or (k in ('missing', 'wrong-content') and not lossy):
            kinds.setdefault('response-' + k, text)
    for e in res.escaped:
        if not lossy:
            kinds['escaped:%s' % type(e).__name__] = repr(e)
    run.count('responses_matched', matched)
    if not kinds:
        return True
    left = set(kinds)
    if lossy:
        left -= {'store-diverged-after-lost-frame'}
    bcast_fail = (case.get('failing') and case['flags'].get('broadcast_enable') and not case['layout']['single'] and len(case['layout']['units']) >= 2
                  and any(fr[0] == 0 and fr[2]['fc'] in (5, 6, 15, 16, 22, 23) for rd in case['reads'] for fr in rd))
    if bcast_fail and left and left <= {'store', 'response-wrong-content', 'store-diverged-after-lost-frame'}:
        run.region('broadcast-stops-at-failing-unit')
        # only units that work may differ, and only by missing a broadcast write (they still hold what they held)
        fu = int(case['failing'][0])
        if real.get(fu) == want.get(fu):
            run.known('broadcast-stops-at-failing-unit', 'a broadcast write stops at the first hosted unit whose datastore raises: the units after it in the context are not written', case)
            return False
    if not left:
        for slug in sorted(lossy):
            run.known(slug, 'frames lost by the receive path are not executed (see C06/C09): the addressed unit misses those writes', case)
        return False
    run.violation('%s:%s:%s' % (tag, '+'.join(sorted(left)), 'clean' if not regs else 'in-' + '+'.join(sorted(regs))), case,
                  '; '.join('%s: %s' % (k, kinds[k]) for k in sorted(left))[:900])
    return False


def _d(a, b, u):
    out = []
    for t in SM.TABLES:
        x, y = a[u][t], b[u][t]
        bad = [(k, x.get(k), y.get(k)) for k in sorted(set(x) | set(y)) if x.get(k) != y.get(k)][:3]
        if bad:
            out.append('table %s (addr, real, expected) %r' % (t, bad))
    return '; '.join(out)


def sweep_case(r, front, framing, hosted, single, flags, unit, uniq, same_layout):
    """one write request to `unit`, preceded by one write to a hosted unit (non-trivial state)"""
    base = SM.unit_layout(r, share=False, small=True)
    units = {}
    for u in ([hosted[0]] if single else hosted):
        units[u] = copy.deepcopy(base) if same_layout else SM.unit_layout(r, share=False, small=True)
    layout = {'single': single, 'zero_mode': bool(r.getrandbits(1)), 'units': units}
    from .c04 import layout_addresses
    addrs = layout_addresses(base if same_layout else units[next(iter(units))], layout['zero_mode'])
    uniq[0] += 2
    reads = [[[hosted[0], 1, {'dir': REQ, 'fc': 6, 'address': r.choice(addrs['h'][2]), 'value': uniq[0] & 0xFFFF}]],
             [[unit, 2, r.choice([{'dir': REQ, 'fc': 6, 'address': r.choice(addrs['h'][2]), 'value': (uniq[0] + 1) & 0xFFFF},
                                  {'dir': REQ, 'fc': 5, 'address': r.choice(addrs['c'][2]), 'value': r.choice([0, 0xFF00])},
                                  {'dir': REQ, 'fc': 16, 'address': r.choice(addrs['h'][2]), 'registers': [(uniq[0] + 1) & 0xFFFF]}])]],
             [[hosted[-1], 3, {'dir': REQ, 'fc': 3, 'address': r.choice(addrs['h'][2]), 'count': 1}]]]
    return {'front': front, 'framing': framing, 'layout': layout, 'flags': flags, 'reads': reads}


def exact_cover_case(r, front, framing, uniq, i):
    """small tables; a broadcast (or unicast) write that covers a whole table exactly, then unicast writes to single units, then reads of all"""
    hosted = sorted(r.sample(range(1, 40), r.randint(2, 3)))
    zero = bool(r.getrandbits(1))
    off = 0 if zero else 1
    start, n = r.choice([0, 1, 5]) + off, r.randint(1, 12)
    def lay():
        return {'c': {'type': 'seq', 'start': start, 'values': [bool(r.getrandbits(1)) for _ in range(n)]},
                'd': {'type': 'seq', 'start': start, 'values': [False] * n},
                'i': {'type': 'seq', 'start': start, 'values': [0] * n},
                'h': {'type': 'seq', 'start': start, 'values': [r.randrange(65536) for _ in range(n)]}, 'alias': {}}
    layout = {'single': False, 'zero_mode': zero, 'units': {u: lay() for u in hosted}}
    bc = not front.startswith('tw')
    flags = {'ignore_missing_slaves': bool(i % 2), 'broadcast_enable': bc}
    tid = [0]
    a = start - off

    def fr(unit, m):
        tid[0] += 1
        return [[unit, tid[0], m]]

    def vals(k):
        uniq[0] += k
        return [(uniq[0] - j) & 0xFFFF for j in range(k)]
    target = 0 if bc else hosted[0]
    kind = i % 3
    if kind == 0:
        w = {'dir': REQ, 'fc': 16, 'address': a, 'registers': vals(n)}
    elif kind == 1:
        w = {'dir': REQ, 'fc': 15, 'address': a, 'bits': [bool(r.getrandbits(1)) for _ in range(n)]}
    else:
        w = {'dir': REQ, 'fc': 23, 'read_address': a, 'read_count': 1, 'write_address': a, 'registers': vals(n)}
    reads = [fr(target, w)]
    for u in hosted[:2]:
        reads.append(fr(u, {'dir': REQ, 'fc': 6, 'address': a + r.randrange(n), 'value': vals(1)[0]}))
        reads.append(fr(u, {'dir': REQ, 'fc': 5, 'address': a + r.randrange(n), 'value': r.choice([0, 0xFF00])}))
    for u in hosted:
        reads.append(fr(u, {'dir': REQ, 'fc': 3, 'address': a, 'count': n}))
        reads.append(fr(u, {'dir': REQ, 'fc': 1, 'address': a, 'count': n}))
    return {'front': front, 'framing': framing, 'layout': layout, 'flags': flags, 'reads': reads}


def defaulted_case(r, front, framing, uniq, i):
    """units that are constructed with only some of their tables (the others get pymodbus' default block): a write to a defaulted
    table of one unit must not show in any other unit"""
    hosted = sorted(r.sample(range(1, 40), 2))
    zero = bool(i % 2)
    units = {}
    for u in hosted:
        defaulted = [t for t in SM.TABLES if r.random() < 0.6] or ['c']
        lay = {'alias': {}, 'defaulted': defaulted}
        for t in SM.TABLES:
            lay[t] = {'type': 'seq', 'start': 0, 'values': [False if t in 'cd' else 0] * 65536} if t in defaulted else SM.block_spec(r, t in 'cd', small=True)
        units[u] = lay
    layout = {'single': False, 'zero_mode': zero, 'units': units}
    flags = {'ignore_missing_slaves': False, 'broadcast_enable': False}
    tid = [0]

    def fr(unit, m):
        tid[0] += 1
        return [[unit, tid[0], m]]
    reads = []
    for u in hosted:
        uniq[0] += 1
        a = r.randint(1, 30)
        reads.append(fr(u, {'dir': REQ, 'fc': 6, 'address': a, 'value': uniq[0] & 0xFFFF}))
        reads.append(fr(u, {'dir': REQ, 'fc': 5, 'address': a, 'value': 0xFF00}))
    for u in hosted:
        reads.append(fr(u, {'dir': REQ, 'fc': 3, 'address': 1, 'count': 30}))
        reads.append(fr(u, {'dir': REQ, 'fc': 1, 'address': 1, 'count': 30}))
    return {'front': front, 'framing': framing, 'layout': layout, 'flags': flags, 'reads': reads}


def reconfig_case(r, front, framing, uniq, i):
    """traffic, then context[new] = ... / del context[old] / context[old] = replacement, then traffic to old and new units"""
    single = i % 5 == 4
    hosted = sorted(r.sample(range(1, 40), r.randint(1, 3)))
    base = SM.unit_layout(r, share=False, small=True)
    units = {u: copy.deepcopy(base) for u in ([hosted[0]] if single else hosted)}
    layout = {'single': single, 'zero_mode': bool(r.getrandbits(1)), 'units': units}
    from .c04 import layout_addresses
    addrs = layout_addresses(base, layout['zero_mode'])
    flags = {'ignore_missing_slaves': bool(i % 2), 'broadcast_enable': (i % 3 == 0) and not front.startswith('tw')}
    new = r.choice([u for u in range(1, 60) if u not in hosted])
    tid = [0]

    def wr(unit):
        uniq[0] += 1
        tid[0] += 1
        return [[unit, tid[0], {'dir': REQ, 'fc': 6, 'address': r.choice(addrs['h'][2]), 'value': uniq[0] & 0xFFFF}]]

    def rd(unit):
        tid[0] += 1
        a = r.choice(addrs['h'][2])
        return [[unit, tid[0], {'dir': REQ, 'fc': 3, 'address': a, 'count': 1}]]
    reads, reconfig = [], []
    warm = i % 4 != 3                      # three of four histories see traffic before the first reconfiguration
    if i % 7 == 5 and not single:
        # a multi-unit server that hosts nothing when it is constructed; every unit is registered at run time
        layout['units'] = {}
        reads.append(rd(hosted[0]))                                        # nobody home yet: silence or a gateway exception
        for u in hosted:
            reconfig.append([len(reads), 'set', u, copy.deepcopy(base)])
        reads += [rd(new), wr(hosted[0]), rd(hosted[0]), wr(hosted[-1]), rd(hosted[-1]), wr(new), wr(0), rd(hosted[0])]
        return {'front': front, 'framing': framing, 'layout': layout, 'flags': flags, 'reads': reads, 'reconfig': reconfig}
    if warm:
        reads += [wr(hosted[0]), rd(hosted[-1])]
    # The sync and asyncio handlers take their snapshot of the hosted unit ids before they wait for the next read, so
    # the read that follows a reconfiguration is still filtered with the old set; the property does not say when a
    # change of configuration takes effect, so that one read goes to a unit the change does not touch ("settle").
    if single:
        reconfig.append([len(reads), 'set', hosted[0], copy.deepcopy(base)])
        reads += [rd(hosted[0]), wr(new), rd(hosted[0])]
    else:
        reconfig.append([len(reads), 'set', new, copy.deepcopy(base)])
        reads += [rd(hosted[0]), wr(new), rd(new), wr(hosted[0]), wr(0)]
        victim = hosted[0] if i % 2 else new
        keep = new if victim == hosted[0] else hosted[0]
        reconfig.append([len(reads), 'del', victim, None])
        reads += [rd(keep), wr(victim), rd(victim), wr(keep), wr(0)]
        if i % 3 == 1:
            reconfig.append([len(reads), 'set', victim, copy.deepcopy(base)])
            reads += [rd(keep), rd(victim), wr(victim), rd(victim)]
    return {'front': front, 'framing': framing, 'layout': layout, 'flags': flags, 'reads': reads, 'reconfig': reconfig}


def run(run):
    r = run.rng('main')
    uniq = [0]
    run.rule = ('case = (front-end, framing, hosted unit set, single/multi, broadcast_enable, ignore_missing_slaves, history of requests to hosted / non-hosted / broadcast units); '
                'per-unit dumps of all units compared with the multi-unit model, responses matched; distinct = whole case; '
                'non-trivial = multi-unit context with a write request, or a request to a non-hosted unit / unit 0')
    run.assumptions = ['multi-unit register-file model', 'reference receivers', 'Twisted has no broadcast option: only the non-broadcast clauses are checked there']
    # (1) systematic: every unit id 0..255 against every hosted set and flag combination
    idx = 0
    for hosted in SH.HOSTED_SETS:
        for single in (False, True):
            for bc in (False, True):
                for ign in (False, True):
                    for unit in range(256):
                        idx += 1
                        if not run.mine(idx):
                            continue
                        if not run.thorough and unit > 5 and unit not in hosted and unit not in (247, 248, 254, 255) and (unit + idx) % 5:
                            continue
                        front, framing = FRONTS[idx % len(FRONTS)]
                        flags = {'ignore_missing_slaves': ign, 'broadcast_enable': bc and not front.startswith('tw')}
                        case = sweep_case(r, front, framing, list(hosted), single, flags, unit, uniq, same_layout=True)
                        ok = check(run, case)
                        run.case(h64(repr(case)), True,
                                 sample={'front': front, 'framing': framing, 'hosted': hosted, 'single': single, 'flags': flags, 'addressed_unit': unit,
                                         'verdict': 'only the addressed unit(s) changed' if ok else 'differs'},
                                 sample_class=('sweep', single, bc, unit in hosted, unit == 0))
    # (2) random histories
    n = run.scale(90, 25000)
    for front, framing in FRONTS:
        for i in range(n):
            case = SH.gen_case(r, front, framing, uniq, data_only=(i % 4 != 0), max_per_read=3 if i % 3 == 0 else 1)
            if i % 6 == 5:
                SH.add_failing(r, case, i // 6)       # one hosted unit's datastore raises on every access
                run.count('histories_with_failing_datastore')
            ok = check(run, case)
            run.case(h64(repr(case)), not case['layout']['single'] or any(fr[0] == 0 for rd in case['reads'] for fr in rd),
                     sample={'front': front, 'framing': framing, 'hosted': sorted(case['layout']['units']), 'single': case['layout']['single'], 'flags': case['flags'],
                             'reads': [[(u, m['fc']) for u, t, m in rd] for rd in case['reads']][:6], 'verdict': 'agrees' if ok else 'differs'},
                     sample_class=('hist', front, framing))
    # (3) run-time reconfiguration through the context's mapping interface between requests
    n3 = run.scale(8, 600)
    for front, framing in FRONTS:
        for i in range(n3):
            idx += 1
            if not run.mine(idx):
                continue
            case = reconfig_case(r, front, framing, uniq, i)
            ok = check(run, case)
            run.count('reconfig_histories')
            run.case(h64(repr(case)), True,
                     sample={'front': front, 'framing': framing, 'hosted': sorted(case['layout']['units']), 'single': case['layout']['single'], 'flags': case['flags'],
                             'reconfig': [(a, b, c) for a, b, c, _ in case['reconfig']],
                             'reads': [[(u, m['fc']) for u, t, m in rd] for rd in case['reads']][:8], 'verdict': 'agrees' if ok else 'differs'},
                     sample_class=('reconfig', front, framing))
    # (4) writes that cover a whole table exactly (broadcast where offered), followed by writes to single units
    for front, framing in FRONTS:
        for i in range(run.scale(6, 300)):
            idx += 1
            if not run.mine(idx):
                continue
            case = exact_cover_case(r, front, framing, uniq, i)
            ok = check(run, case)
            run.count('exact_cover_histories')
            run.case(h64(repr(case)), True,
                     sample={'front': front, 'framing': framing, 'hosted': sorted(case['layout']['units']), 'flags': case['flags'],
                             'reads': [[(u, m['fc']) for u, t, m in rd] for rd in case['reads']][:8], 'verdict': 'agrees' if ok else 'differs'},
                     sample_class=('exact-cover', front, framing))
    # (5) units built with only some of their tables
    for front, framing in FRONTS:
        for i in range(run.scale(2, 60)):
            idx += 1
            if not run.mine(idx):
                continue
            case = defaulted_case(r, front, framing, uniq, i)
            ok = check(run, case)
            run.count('defaulted_table_histories')
            run.case(h64(repr(sorted(case['layout']['units'])) + repr(case['reads'])), True,
                     sample={'front': front, 'framing': framing, 'hosted': sorted(case['layout']['units']),
                             'defaulted': {u: l['defaulted'] for u, l in case['layout']['units'].items()}, 'verdict': 'agrees' if ok else 'differs'},
                     sample_class=('defaulted', front, framing))
    run.floor('run-time reconfiguration histories', run.counters.get('reconfig_histories', 0), 30 if run.shard is None else 1)
    run.floor('per-unit dumps compared', run.counters.get('unit_dumps_compared', 0), 5000 if run.shard is None else 300)
    run.floor('clean-region histories', run.counters.get('clean_region_cases', 0), 1500 if run.shard is None else 100)
    run.floor('histories per front-end (min)', min(run.counters.get('histories:%s' % f, 0) for f in FE.ALL), 100 if run.shard is None else 5)


def replay(run, case):
    case['layout']['units'] = {int(k): v for k, v in case['layout']['units'].items()}
    for ev in case.get('reconfig', []):
        if ev[3] is not None and 'alias' not in ev[3]:
            raise ValueError('bad reconfig layout')
    print('agrees' if check(run, case) else 'differs')
    run.evaluations += 1
