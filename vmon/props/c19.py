"""C19 - payload builder and decoder agree for every byte and word order.
Oracle: independent layout reference (vmon/spec/payload.py); decoded values compared by bit pattern."""
from .. import repo  # noqa: F401
from ..core import h64
from ..spec import payload as P

from pymodbus.payload import BinaryPayloadBuilder, BinaryPayloadDecoder
from pymodbus.constants import Endian

LEVEL = 'exploration'
SHARDS = {'thorough': 16}
ANCHORS = ['pymodbus/payload.py']

ORD = {'big': Endian.Big, 'little': Endian.Little}
ADD = {'u8': 'add_8bit_uint', 'i8': 'add_8bit_int', 'u16': 'add_16bit_uint', 'i16': 'add_16bit_int',
       'u32': 'add_32bit_uint', 'i32': 'add_32bit_int', 'u64': 'add_64bit_uint', 'i64': 'add_64bit_int',
       'f16': 'add_16bit_float', 'f32': 'add_32bit_float', 'f64': 'add_64bit_float',
       'bits': 'add_bits', 'str': 'add_string', 'text': 'add_string'}
DEC = {k: v.replace('add_', 'decode_') for k, v in ADD.items()}
KINDS = sorted(ADD)


def gen_item(r):
    k = r.choice(KINDS)
    if k in P.INT_BITS:
        n = P.INT_BITS[k]
        signed = k[0] == 'i'
        lo, hi = (-(1 << (n - 1)), (1 << (n - 1)) - 1) if signed else (0, (1 << n) - 1)
        x = r.random()
        if x < 0.3:
            v = r.choice([lo, hi, 0, 1, -1 if signed else 1, lo + 1, hi - 1, 0x7B, 0x0102030405060708 & hi])
        elif x < 0.5:
            v = r.randint(max(lo, -300), min(hi, 300))
        else:
            v = r.randint(lo, hi)
        return [k, v]
    if k in P.FLOAT_FMT:
        bits = P.FLOAT_FMT[k][1]
        x = r.random()
        if x < 0.35:
            ebits = {16: 5, 32: 8, 64: 11}[bits]
            mant = bits - 1 - ebits
            special = [0, 1 << (bits - 1),                                   # +0, -0
                       ((1 << ebits) - 1) << mant, (((1 << ebits) - 1) << mant) | (1 << (bits - 1)),   # +inf, -inf
                       1, (1 << mant) - 1, (1 << (bits - 1)) | 1,             # subnormals
                       (((1 << ebits) - 1) << mant) | (1 << (mant - 1)),     # quiet NaN
                       (((1 << ebits) - 2) << mant) | ((1 << mant) - 1),     # max finite
                       1 << mant]                                           # min normal
            return [k, r.choice(special)]
        pat = r.getrandbits(bits)
        # signalling NaNs do not survive a float round trip on every platform: quieten them
        ebits = {16: 5, 32: 8, 64: 11}[bits]
        mant = bits - 1 - ebits
        if (pat >> mant) & ((1 << ebits) - 1) == (1 << ebits) - 1 and pat & ((1 << mant) - 1):
            pat |= 1 << (mant - 1)
        return [k, pat]
    if k == 'bits':
        n = 8 * r.randint(1, 3)
        return [k, [r.random() < 0.5 for _ in range(n)]]
    if k == 'text':
        # text strings (str, not bytes): ASCII, Latin-1, BMP and astral code points -> 1..4 UTF-8 bytes per character
        return [k, [r.choice([r.randint(0x20, 0x7E), r.randint(0xA1, 0xFF), r.randint(0x100, 0x7FF), r.randint(0x800, 0xD7FF), r.randint(0x10000, 0x10FFFF)])
                    if r.random() < 0.5 else r.randint(0x20, 0x7E) for _ in range(r.randint(0, 7))]]
    return [k, list(bytes(r.randrange(256) for _ in range(r.randint(0, 9))))]


def check(run, case):
    items, bo, wo = case['items'], case['byteorder'], case['wordorder']
    vals = [(k, P.value_of(k, raw)) for k, raw in items]
    b = BinaryPayloadBuilder(byteorder=ORD[bo], wordorder=ORD[wo])
    if case.get('reuse'):
        # a builder that has been used before: other values of the same kinds were added, the payload was taken, reset() called
        for k, v in reversed(vals):
            try:
                getattr(b, ADD[k])(v)
            except Exception:  # noqa
                break
        try:
            b.to_string(), b.build(), b.to_registers()
        except Exception:  # noqa
            pass
        b.reset()
    ref = b''
    for n_added, (k, v) in enumerate(vals):
        try:
            if k == 'str' and case.get('buffer'):
                # the bytes come from a buffer the application reuses (a bytearray filled by a read): after add_string() returns the
                # buffer is the application's again
                buf = bytearray(v)
                b.add_string(buf)
                for j in range(len(buf)):
                    buf[j] ^= 0x5A
                buf.extend(b'xx')
            else:
                getattr(b, ADD[k])(v)
        except Exception as e:  # noqa
            run.violation('add-raised:%s' % k, case, '%s(%r) raised %r' % (ADD[k], v, e))
            return False
        ref += P.layout(k, v, bo, wo)
        if case.get('twin'):
            # a second builder (other orders) is filled at the same time: builders do not share anything
            try:
                if n_added == 0:
                    twin = BinaryPayloadBuilder(byteorder=ORD['little' if bo == 'big' else 'big'], wordorder=ORD['little' if wo == 'big' else 'big'])
                kk, vv = vals[len(vals) - 1 - n_added]
                getattr(twin, ADD[kk])(vv)
                twin.to_string()
            except Exception:  # noqa
                pass
        if case.get('peek') and n_added % 2 == 0:
            # looking at the payload so far (bytes, registers, coils) is a read: it must not change what is built afterwards
            try:
                b.to_string(), b.build(), b.to_registers(), b.to_coils()
            except Exception:  # noqa
                pass
    ok = True
    run.count('comparisons', 3)
    s = b.to_string()
    if s != ref:
        first = _first_bad(vals, s, bo, wo)
        run.violation('layout:%s:%s/%s' % (first, bo, wo), case, 'to_string %s != reference %s (first differing item kind %s)' % (s.hex(), ref.hex(), first))
        return False
    padded = ref + (b'\x00' if len(ref) % 2 else b'')
    pieces = b.build()
    if b''.join(pieces) != padded or any(len(p) != 2 for p in pieces):
        run.violation('build:%s' % (len(ref) % 2), case, 'build() pieces %r != 2-byte pieces of padded string %s' % (pieces[:6], padded.hex()))
        ok = False
    regs = b.to_registers()
    if list(regs) != P.registers_of(ref):
        run.violation('to_registers:%s/%s' % (bo, wo), case, 'to_registers %r != %r' % (regs[:8], P.registers_of(ref)[:8]))
        ok = False
    for transport in ('raw', 'registers'):
        try:
            if transport == 'raw':
                d = BinaryPayloadDecoder(s, byteorder=ORD[bo], wordorder=ORD[wo])
            else:
                d = BinaryPayloadDecoder.fromRegisters(list(regs), byteorder=ORD[bo], wordorder=ORD[wo])
        except Exception as e:  # noqa
            run.violation('decoder-ctor:%s' % transport, case, repr(e))
            return False
        for idx, (k, v) in enumerate(vals):
            run.count('comparisons')
            try:
                if k == 'bits':
                    got = []
                    for _ in range(len(v) // 8):
                        got += d.decode_bits()
                elif k in ('str', 'text'):
                    got = d.decode_string(len(P.layout(k, v, bo, wo)))
                else:
                    got = getattr(d, DEC[k])()
            except Exception as e:  # noqa
                run.violation('decode-raised:%s:%s' % (k, transport), case, 'item %d %s raised %r' % (idx, DEC[k], e))
                ok = False
                break
            if not P.same_value(k, got, v):
                run.violation('decode-value:%s:%s/%s:%s' % (k, bo, wo, transport), case,
                              'item %d (%s) decoded %r, packed %r' % (idx, k, got, v))
                ok = False
                break
        if ok and case.get('rewind'):
            # the decoder rewound and read again: the same values come out (its byte and word order are part of the object)
            try:
                d.reset()
                for idx, (k, v) in enumerate(vals):
                    run.count('comparisons')
                    if k == 'bits':
                        got = []
                        for _ in range(len(v) // 8):
                            got += d.decode_bits()
                    elif k in ('str', 'text'):
                        got = d.decode_string(len(P.layout(k, v, bo, wo)))
                    else:
                        got = getattr(d, DEC[k])()
                    if not P.same_value(k, got, v):
                        run.violation('decode-after-reset:%s:%s/%s:%s' % (k, bo, wo, transport), case, 'after reset() item %d (%s) decoded %r, packed %r' % (idx, k, got, v))
                        ok = False
                        break
            except Exception as e:  # noqa
                run.violation('decode-after-reset-raised:%s' % transport, case, repr(e))
                ok = False
    return ok


def _first_bad(vals, s, bo, wo):
    pos = 0
    for k, v in vals:
        piece = P.layout(k, v, bo, wo)
        if s[pos:pos + len(piece)] != piece:
            return k
        pos += len(piece)
    return 'length'


def run(run):
    r = run.rng('main')
    run.rule = ('case = (sequence of 1..24 typed values, byte order, word order); to_string/build/to_registers compared with '
                'the layout reference, every value decoded back over raw and register transport; distinct = (items, orders); '
                'non-trivial = sequence contains a multi-byte value')
    run.assumptions = ['layout reference vmon/spec/payload.py', 'struct float conversion of the standard library']
    n = run.scale(30000, 3000000)
    for i in range(n):
        items = [gen_item(r) for _ in range(r.randint(1, 24) if i % 3 else r.randint(1, 3))]
        for bo in ('big', 'little'):
            for wo in ('big', 'little'):
                case = {'items': items, 'byteorder': bo, 'wordorder': wo}
                if i % 5 == 3 and len(items) > 1:
                    case['reuse'] = True
                if i % 5 == 1 and len(items) > 1:
                    case['peek'] = True
                if i % 5 == 4 and len(items) > 1:
                    case['twin'] = True
                if i % 4 == 2:
                    case['rewind'] = True          # the decoder is reset() and everything is decoded a second time
                if i % 4 == 1:
                    case['buffer'] = True          # byte strings come from a bytearray the caller overwrites after add_string()
                res = check(run, case)
                for k, _ in items:
                    run.count('kind:%s:%s/%s' % (k, bo, wo))
                run.case(h64(repr(case)), any(k not in ('u8', 'i8', 'str', 'text', 'bits') for k, _ in items),
                         sample=dict(case, odd_length=bool(len(P.registers_of(b'')) == 0 and sum(len(P.layout(k, P.value_of(k, raw), bo, wo)) for k, raw in items) % 2),
                                     verdict='held' if res else 'differs'),
                         sample_class=(bo, wo, len(items) > 3))
    floor = 50 if run.shard is None else 3
    run.floor('min items per (kind, order combination)',
              min(run.counters.get('kind:%s:%s/%s' % (k, bo, wo), 0) for k in KINDS for bo in ('big', 'little') for wo in ('big', 'little')), floor)


def replay(run, case):
    print('held' if check(run, case) else 'differs')
    run.evaluations += 1
