"""C16 - asynchronous (Twisted) client matches pipelined replies by transaction id.

Every deferred returned by the real ModbusClientProtocol gets a recorder; the oracle checks
exactly-once firing, pairing (the callback value is the reply built for that request's
transaction id - unique values), distinct tids among outstanding requests (parsed from the
bytes written), silence on unsolicited / duplicate replies, and ConnectionException for every
pending and every later request when the connection is lost."""
import itertools

from .. import adapters as A
from .. import repo
from ..core import h64
from ..spec import adu as ADU
from ..spec import pdu as S
from ..spec.pdu import REQ, RSP

from twisted.test import proto_helpers
from twisted.python.failure import Failure
from twisted.internet.error import ConnectionDone

from pymodbus.client.asynchronous.twisted import ModbusClientProtocol, ModbusSerClientProtocol
from pymodbus.exceptions import ConnectionException

LEVEL = 'exploration'
SHARDS = {'thorough': 16}
ANCHORS = ['pymodbus/client/asynchronous/twisted/__init__.py', 'pymodbus/transaction.py', 'pymodbus/framer/socket_framer.py']


class Rec(object):
    def __init__(self, idx):
        self.idx, self.fired = idx, []

    def cb(self, v):
        self.fired.append(('callback', v))
        return None

    def eb(self, f):
        self.fired.append(('errback', f))
        return None


def make_protocol(variant, ctor):
    """the three documented ways to give the protocol its framer: default, a framer instance, a framer class"""
    from pymodbus.factory import ClientDecoder
    from pymodbus.transaction import ModbusSocketFramer, ModbusRtuFramer
    cls = ModbusClientProtocol if variant == 'tcp' else ModbusSerClientProtocol
    fr = ModbusSocketFramer if variant == 'tcp' else ModbusRtuFramer
    if ctor == 'instance':
        return cls(framer=fr(ClientDecoder()))
    if ctor == 'class':
        return cls(framer=fr)
    return cls()


def run_history(run, case):
    """case: variant tcp|rtu, n requests, events: list of ('reply', i) | ('dup', i) | ('unsolicited', tid) | ('lose',) | ('request',)
    group: how many consecutive reply events are delivered in one dataReceived; units: unit id per request"""
    variant, n, events, group, units = case['variant'], case['n'], case['events'], case.get('group', 1), case['units']
    repo.reset_globals()
    if case.get('tid_start') is not None and case.get('tid_via_defaults'):
        # the first transaction id configured through the process-wide Defaults.TransactionId
        from pymodbus.constants import Defaults
        old_tid = Defaults.TransactionId
        Defaults.TransactionId = case['tid_start']
        try:
            return run_history(run, dict(case, tid_via_defaults=False, _defaults_tid=True))
        finally:
            Defaults.TransactionId = old_tid
    p = make_protocol(variant, case.get('ctor', 'default'))
    tr = proto_helpers.StringTransport()
    p.makeConnection(tr)
    if case.get('tid_start') is not None and not case.get('_defaults_tid'):
        p.transaction.tid = case['tid_start']
    framing = 'tcp' if variant == 'tcp' else 'rtu'
    recs, tids, kinds = [], [], {}
    escaped = []

    reqs = {}
    bad_done = []

    def issue(k):
        from pymodbus.register_read_message import ReadHoldingRegistersRequest
        before = len(tr.value())
        if case.get('reuse') and k >= 1 and k % 2 == 1 and (k - 1) in reqs and len(units) == 1:
            req = reqs[k - 1]          # the application submits the same request object again while its first submission is pending
        else:
            req = ReadHoldingRegistersRequest(2000 + k, 1, unit=units[k % len(units)])
        reqs[k] = req
        if case.get('bad_encode') is not None and k == case['bad_encode'] + 1 and not bad_done:
            # between two requests the application submits one that cannot be encoded (register value 70000): the error is the
            # caller's to see, nothing of it may stay behind in the client
            bad_done.append(1)
            from pymodbus.register_write_message import WriteSingleRegisterRequest
            try:
                dbad = p.execute(WriteSingleRegisterRequest(7, 70000, unit=units[0]))
                dbad.addErrback(lambda f: None)
            except Exception:  # noqa
                pass
            before = len(tr.value())
        try:
            d = p.execute(req)
        except Exception as e:  # noqa
            escaped.append(e)
            from twisted.internet import defer
            d = defer.Deferred()
        rec = Rec(k)
        if case.get('retry_on_loss') and k == 0:
            # a retry handler: when the request fails it submits a new one from inside the errback
            def eb(f, rec=rec):
                rec.eb(f)
                if len(recs) < n + 8:
                    issue(len(recs))
                return None
            d.addCallbacks(rec.cb, eb)
        else:
            d.addCallbacks(rec.cb, rec.eb)
        recs.append(rec)
        frames, pos, err = ADU.parse_stream(framing, REQ, tr.value()[before:])
        tids.append(frames[0].tid if frames and err is None else None)
        if err is not None or len(frames) != 1:
            kinds['request-not-one-frame'] = 'request %d wrote %s' % (k, tr.value()[before:].hex())
        return rec
    for k in range(n):
        issue(k)
    # a second client object of the process (its own connection) with requests of its own outstanding - the same transaction ids,
    # as both count from the same start: nothing that happens on the first connection concerns them
    other_recs = []
    if case.get('companion', True):
        from pymodbus.register_read_message import ReadHoldingRegistersRequest as _RHR
        p2 = make_protocol(variant, case.get('ctor', 'default'))
        p2.makeConnection(proto_helpers.StringTransport())
        if case.get('tid_start') is not None and not case.get('_defaults_tid'):
            p2.transaction.tid = case['tid_start']
        for k in range(min(n, 3)):
            rec2 = Rec(1000 + k)
            try:
                p2.execute(_RHR(3000 + k, 1, unit=units[0])).addCallbacks(rec2.cb, rec2.eb)
            except Exception:  # noqa
                pass
            other_recs.append(rec2)
    # outstanding tids pairwise distinct
    known_tids = [t for t in tids if t is not None]
    if variant == 'tcp' and len(set(known_tids)) != len(known_tids):
        kinds['tid-reuse'] = 'outstanding requests share a transaction id: %r' % (sorted(t for t in known_tids if known_tids.count(t) > 1)[:4],)
    run.count('requests', n)

    def reply_frame(k, tid=None):
        m = {'dir': RSP, 'fc': 3, 'registers': [(40000 + k) & 0xFFFF]}
        return ADU.build(framing, units[k % len(units)], S.encode(m), tid=(tids[k] or 0) if tid is None else tid)
    lost = False
    answered = set()
    expected_cb = {}         # request index -> expected register value
    pending_chunk = b''
    pending_count = 0

    def flush():
        nonlocal pending_chunk, pending_count
        if pending_chunk:
            try:
                p.dataReceived(pending_chunk)
            except Exception as e:  # noqa
                escaped.append(e)
            run.count('segments')
        pending_chunk, pending_count = b'', 0
    for ev in events:
        if ev[0] in ('reply', 'dup', 'unsolicited'):
            if ev[0] == 'reply':
                k = ev[1]
                if k not in answered and not lost:
                    expected_cb[k] = (40000 + k) & 0xFFFF
                answered.add(k)
                pending_chunk += reply_frame(k)
            elif ev[0] == 'dup':
                pending_chunk += reply_frame(ev[1])
            elif ev[0] == 'unsolicited' and isinstance(ev[1], str):
                # 'next+N': a transaction id nobody is waiting for YET - the one the N-th request from now will be given
                last = [t for t in tids if t is not None]
                utid = ((last[-1] if last else 0) + int(ev[1].split('+')[1])) & 0xFFFF
                pending_chunk += ADU.build(framing, units[0], S.encode({'dir': RSP, 'fc': 3, 'registers': [0xDEAD]}), tid=utid)
            else:
                utid = ev[1]
                while utid in tids:                 # unsolicited = a transaction id nobody is waiting for
                    utid = (utid + 7919) & 0xFFFF
                pending_chunk += ADU.build(framing, units[0], S.encode({'dir': RSP, 'fc': 3, 'registers': [0xDEAD]}), tid=utid)
            pending_count += 1
            if pending_count >= group or variant == 'rtu':
                flush()
        elif ev[0] == 'close':
            flush()
            try:
                p.close()              # client-initiated close: the transport reports the loss later
            except Exception as e:  # noqa
                escaped.append(e)
        elif ev[0] == 'lose':
            flush()
            try:
                p.connectionLost(Failure(ConnectionDone()))
            except Exception as e:  # noqa
                escaped.append(e)
            lost = True
        elif ev[0] == 'request':
            flush()
            issue(len(recs))
    flush()
    # ---- oracle
    for rec in recs:
        k = rec.idx
        nf = len(rec.fired)
        if nf > 1:
            kinds['fired-more-than-once'] = 'deferred of request %d fired %d times' % (k, nf)
            continue
        if k in expected_cb:
            if nf == 0:
                kinds.setdefault('reply-not-delivered', 'request %d (tid %r) was answered but its deferred never fired' % (k, tids[k] if k < len(tids) else None))
            elif rec.fired[0][0] == 'errback' and lost and rec.fired[0][1].check(ConnectionException):
                kinds.setdefault('reply-not-delivered', 'request %d was answered before the connection was lost, yet its deferred only failed at the loss' % k)
            elif rec.fired[0][0] != 'callback' or getattr(rec.fired[0][1], 'registers', None) != [expected_cb[k]]:
                kinds.setdefault('wrong-pairing', 'deferred of request %d fired with %r, its reply carries %d' % (
                    k, getattr(rec.fired[0][1], 'registers', rec.fired[0][1]), expected_cb[k]))
        elif lost:
            if nf == 0:
                kinds.setdefault('pending-not-failed-on-loss', 'request %d was pending (or issued) when the connection was lost and its deferred never fired' % k)
            elif rec.fired[0][0] != 'errback' or not rec.fired[0][1].check(ConnectionException):
                kinds.setdefault('wrong-failure-on-loss', 'request %d: %r instead of ConnectionException' % (k, rec.fired[0]))
        else:
            if nf != 0:
                kinds.setdefault('fired-without-reply', 'deferred of request %d fired with %r although no reply for it arrived' % (k, rec.fired[0]))
    for rec2 in other_recs:
        if rec2.fired:
            kinds.setdefault('other-client-fired', "a request outstanding on ANOTHER client object of the process (no reply, no loss on its connection) fired with %r" % (rec2.fired[0],))
    run.count('other_client_deferreds_checked', len(other_recs))
    for e in escaped:
        kinds.setdefault('escaped:%s' % type(e).__name__, 'exception out of dataReceived/connectionLost: %r' % (e,))
    run.count('deferreds_checked', len(recs))
    run.count('firings', sum(len(r.fired) for r in recs))
    return kinds


def regions(case):
    out = set()
    if case['variant'] == 'tcp' and len(set(case['units'])) > 1 and case.get('group', 1) > 1:
        out.add('unit-filter-taken-from-first-frame-of-segment')
    if case['variant'] == 'rtu' and any(e[0] in ('dup', 'unsolicited') for e in case['events']):
        out.add('fifo-pairs-any-reply-with-oldest-request')
    if case.get('wrap'):
        out.add('tid-reuse-while-pending-after-wrap')
    return out


EXCUSE = {
    'unit-filter-taken-from-first-frame-of-segment': ({'reply-not-delivered'}, 'the unit filter is taken from the first frame of a segment: replies of other units in the same segment are dropped'),
    'fifo-pairs-any-reply-with-oldest-request': ({'wrong-pairing', 'reply-not-delivered', 'fired-without-reply'}, 'the serial (FIFO) variant hands any reply to the oldest pending request'),
    'tid-reuse-while-pending-after-wrap': ({'tid-reuse', 'reply-not-delivered', 'wrong-pairing', 'pending-not-failed-on-loss'}, 'after 65536 further requests the transaction id of a still-pending request is reused and its deferred is overwritten'),
}


def check(run, case):
    kinds = run_history(run, case)
    regs = regions(case)
    for slug in regs:
        run.region(slug)
    if not regs:
        run.count('clean_region_cases')
    run.count('histories:%s' % case['variant'])
    if not kinds:
        return True
    allowed = set()
    for slug in regs:
        allowed |= EXCUSE[slug][0]
    left = set(kinds) - allowed
    if not left:
        for slug in sorted(regs):
            if set(kinds) & EXCUSE[slug][0]:
                run.known(slug, EXCUSE[slug][1], case)
        return False
    run.violation('%s:%s:%s' % (case['variant'], '+'.join(sorted(left)), 'clean' if not regs else 'in-' + '+'.join(sorted(regs))), case,
                  '; '.join('%s: %s' % (k, kinds[k]) for k in sorted(left))[:800])
    return False


def add(run, case, cls):
    ok = check(run, case)
    run.case(h64(repr(case)), True, sample=dict(case, events=case['events'][:12], verdict='exactly-once, paired by tid' if ok else 'differs'), sample_class=cls)


def run(run):
    r = run.rng('main')
    run.rule = ('case = (protocol variant tcp/rtu, N outstanding requests, event history: replies in some arrival order, duplicate / unsolicited replies, connection loss, '
                'late requests; replies grouped 1..k per dataReceived); distinct = whole history; non-trivial = N >= 2 or a fault event')
    run.assumptions = ['reference ADU builder/receiver', 'replies are delivered as whole frames (split frames belong to C06)', 'Twisted deferreds observed through recorder callbacks']
    idx = 0
    # all permutations of reply arrival
    maxn = 7 if run.thorough else 6
    for n in range(1, maxn + 1):
        for perm in itertools.permutations(range(n)):
            idx += 1
            if not run.mine(idx) or (n == maxn and not run.thorough and idx % 3):
                continue
            add(run, {'variant': 'tcp', 'n': n, 'events': [('reply', k) for k in perm], 'group': 1 + idx % 3, 'units': [1]}, ('perm', n))
    # rtu/FIFO: in-order replies only
    for n in range(1, 12):
        add(run, {'variant': 'rtu', 'n': n, 'events': [('reply', k) for k in range(n)], 'group': 1, 'units': [1]}, ('rtu-inorder', n > 1))
    # random permutations, larger N, injections, loss at every point
    for i in range(run.scale(900, 400000)):
        n = r.choice([2, 3, 5, 8, 20, 50, 300]) if i % 20 == 0 else r.choice([2, 3, 4, 5, 8])
        perm = list(range(n))
        r.shuffle(perm)
        events = [('reply', k) for k in perm]
        kind = i % 5
        variant = 'tcp' if i % 7 else 'rtu'
        if variant == 'rtu':
            events = [('reply', k) for k in range(n)]
        if kind == 1:
            pos = r.randint(0, len(events))
            events.insert(pos, ('unsolicited', r.choice([0, 60000, 0xFFFF, n + 5])))
        elif kind == 2 and n >= 2:
            pos = r.randint(1, len(events))
            events.insert(pos, ('dup', events[r.randrange(pos)][1]))
        elif kind == 3:
            pos = r.randint(0, len(events))
            events.insert(pos, ('lose',))
            if i % 2:
                events.insert(pos, ('close',))      # close() first, connectionLost afterwards
            events.append(('request',))
            if r.random() < 0.5:
                events.append(('reply', n))          # a reply arriving after the loss for the late request: must not resurrect it
        units = [1] if i % 4 else [1, 2, 3]
        add(run, {'variant': variant, 'n': n, 'events': events, 'group': r.choice([1, 1, 2, 3, 50]), 'units': units, 'tid_start': r.choice([None, None, 65530, 65534]),
                  'ctor': ('default', 'instance', 'class')[i % 3], 'reuse': i % 5 == 2, 'retry_on_loss': i % 4 == 1, 'tid_via_defaults': i % 2 == 0,
                  'bad_encode': (0 if i % 6 == 3 else None)},
            ('rand', variant, kind, len(units) > 1))
    # connection loss at every point of a fixed history
    for n in (1, 2, 4):
        for cut in range(0, n + 1):
            ev = [('reply', k) for k in range(n)]
            ev.insert(cut, ('lose',))
            ev.append(('request',))
            add(run, {'variant': 'tcp', 'n': n, 'events': ev, 'group': 1, 'units': [1]}, ('loss', n, cut))
    for variant in ('rtu', 'tcp'):
        for n in (2, 3, 5):
            add(run, {'variant': variant, 'n': n, 'events': [('reply', k) for k in range(n)], 'group': 1, 'units': [1], 'bad_encode': 0}, ('bad-encode', variant, n))
    for start in (0xfff8, 0xfffe, 0x7fff):
        ev = [('request',)] * 12 + [('reply', k) for k in range(14)]
        add(run, {'variant': 'tcp', 'n': 2, 'events': ev, 'group': 1, 'units': [1], 'tid_start': start, 'tid_via_defaults': True}, ('defaults-tid', start))
    # a stray reply that carries an id of the future, then the requests that are given that id (they must wait for their own reply)
    for n in (1, 2, 3):
        for ahead in (1, 2, 3):
            ev = [('unsolicited', 'next+%d' % ahead)] + [('request',)] * 3
            add(run, {'variant': 'tcp', 'n': n, 'events': ev, 'group': 1, 'units': [1]}, ('future-id', n, ahead))
            ev2 = [('reply', k) for k in range(n)] + [('unsolicited', 'next+%d' % ahead)] + [('request',)] * 3 + [('reply', n + ahead - 1)]
            add(run, {'variant': 'tcp', 'n': n, 'events': ev2, 'group': 1, 'units': [1]}, ('future-id-answered', n, ahead))
    # ... and with a retry handler on request 0 (it is still pending at the loss and submits a new request from its errback)
    for variant in ('tcp', 'rtu'):
        for n in (1, 2, 3, 5):
            for lose_at in range(0, n):
                ev = [('reply', k) for k in range(1, n)] if variant == 'tcp' else []
                ev.insert(min(lose_at, len(ev)), ('lose',))
                ev.append(('request',))
                add(run, {'variant': variant, 'n': n, 'events': ev, 'group': 1, 'units': [1], 'retry_on_loss': True}, ('loss-retry', variant, n))
    # wrap histories
    if run.mine(0):
        wrap_histories(run)
    run.floor('deferreds checked', run.counters.get('deferreds_checked', 0), 5000 if run.shard is None else 300)
    run.floor('clean-region histories', run.counters.get('clean_region_cases', 0), 1000 if run.shard is None else 60)
    run.floor('firings observed', run.counters.get('firings', 0), 4000 if run.shard is None else 200)
    repo.reset_globals()


def wrap_histories(run):
    """(a) 65540 requests, each answered at once: pairing must survive the 16-bit wrap;
    (b) one request stays pending while 65536 others are issued and answered: its tid comes round again"""
    for keep_pending in (False, True):
        repo.reset_globals()
        p = ModbusClientProtocol()
        tr = proto_helpers.StringTransport()
        p.makeConnection(tr)
        case = {'scenario': 'wrap', 'keep_pending': keep_pending, 'wrap': keep_pending}
        old = None
        bad = None
        if keep_pending:
            d = p.read_holding_registers(1, 1, unit=1)
            old = Rec(-1)
            d.addCallbacks(old.cb, old.eb)
            old_tid = S.unwords(tr.value()[:2])[0]
            tr.clear()
        for k in range(65540):
            try:
                d = p.read_holding_registers(k & 0xFFFF, 1, unit=1)
                rec = Rec(k)
                d.addCallbacks(rec.cb, rec.eb)
                tid = S.unwords(tr.value()[:2])[0]
                tr.clear()
                if keep_pending and tid == old_tid and bad is None:
                    bad = ('tid-reuse', 'request %d reuses transaction id %d of a still pending request' % (k, tid))
                p.dataReceived(ADU.build('tcp', 1, S.encode({'dir': RSP, 'fc': 3, 'registers': [k & 0xFFFF]}), tid=tid))
            except Exception as e:  # noqa
                bad = bad if bad and not keep_pending else ('escaped:%s' % type(e).__name__, 'request %d: %r' % (k, e))
                break
            if len(rec.fired) != 1 or rec.fired[0][0] != 'callback' or rec.fired[0][1].registers != [k & 0xFFFF]:
                bad = bad or ('wrong-pairing', 'request %d (tid %d) fired %r' % (k, tid, rec.fired[:1]))
                break
        if keep_pending:
            try:
                p.dataReceived(ADU.build('tcp', 1, S.encode({'dir': RSP, 'fc': 3, 'registers': [0xABCD]}), tid=old_tid))
            except Exception as e:  # noqa
                bad = bad or ('escaped:%s' % type(e).__name__, repr(e))
            if len(old.fired) != 1 or getattr(old.fired[0][1], 'registers', None) != [0xABCD]:
                bad = bad or ('reply-not-delivered', 'the long-pending request never received its reply: %r' % (old.fired[:1],))
        run.count('deferreds_checked', 65540)
        run.count('firings', 65540)
        if keep_pending:
            run.region('tid-reuse-while-pending-after-wrap')
        else:
            run.count('clean_region_cases')
        run.case(h64(('wrap', keep_pending)), True, sample=dict(case, requests=65540, verdict='ok' if not bad else bad[0]), sample_class=('wrap', keep_pending))
        if bad:
            if keep_pending and bad[0] in EXCUSE['tid-reuse-while-pending-after-wrap'][0]:
                run.known('tid-reuse-while-pending-after-wrap', EXCUSE['tid-reuse-while-pending-after-wrap'][1], case)
            else:
                run.violation('wrap:%s' % bad[0], case, bad[1])


def replay(run, case):
    if case.get('scenario') == 'wrap':
        wrap_histories(run)
        return
    case['events'] = [tuple(e) for e in case['events']]
    print('ok' if check(run, case) else 'differs')
    run.evaluations += 1
