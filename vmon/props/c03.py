"""C03 - each transport framing builds the spec ADU and round-trips messages.

Oracle: reference ADU builder (vmon/spec/adu.py, bitwise CRC, LRC) for buildPacket; a fresh
receiver of the same framing must deliver exactly one message equal to the original with
unit / tid / pid preserved; computeCRC/computeLRC against the bit-by-bit references."""
import struct

from .. import adapters as A
from .. import gen
from ..core import h64
from ..spec import pdu as S
from ..spec import adu as ADU
from ..spec.pdu import REQ, RSP
from .c01 import kind_of, _short

from pymodbus.factory import ServerDecoder, ClientDecoder
from pymodbus.framer.socket_framer import ModbusSocketFramer
from pymodbus.framer.rtu_framer import ModbusRtuFramer
from pymodbus.framer.ascii_framer import ModbusAsciiFramer
from pymodbus.framer.binary_framer import ModbusBinaryFramer
from pymodbus.framer.tls_framer import ModbusTlsFramer
from pymodbus.utilities import computeCRC, computeLRC, checkCRC, checkLRC

LEVEL = 'exploration'
SHARDS = {'thorough': 16}
ANCHORS = ['pymodbus/framer/__init__.py', 'pymodbus/framer/socket_framer.py', 'pymodbus/framer/rtu_framer.py',
           'pymodbus/framer/ascii_framer.py', 'pymodbus/framer/binary_framer.py', 'pymodbus/framer/tls_framer.py',
           'pymodbus/utilities.py', 'pymodbus/pdu.py']
FRAMER = {'tcp': ModbusSocketFramer, 'rtu': ModbusRtuFramer, 'ascii': ModbusAsciiFramer,
          'binary': ModbusBinaryFramer, 'tls': ModbusTlsFramer}


def new_framer(framing, d):
    return FRAMER[framing](ServerDecoder() if d == REQ else ClientDecoder())


def regions_of(framing, m, uid, pdu):
    """known-finding regions by input predicate"""
    k = kind_of(m)
    out = []
    if framing == 'binary':
        body = bytes([uid]) + pdu
        if any(b in (0x7B, 0x7D) for b in body + ADU.crc_bytes(bytes([uid, pdu[0]]) + ADU.escape_binary(pdu[1:]))):
            out.append('binary-delimiter-in-body')
    if framing == 'rtu' and m['fc'] == 8 and len(m['data']) != 1:
        out.append('rtu-diag-fixed-size')
    if k == 'req/8/0' and len(m['data']) != 1:
        out.append('diag-request-multiword')
    if k == 'rsp/24' and len(m['values']) >= 1:
        out.append('fifo-count')
    if k == 'rsp/20' and len(m['records']) >= 1:
        out.append('filerecord-subresponse-layout')
    if k == 'rsp/17':
        out.append('slaveid-identifier')
    return out


BINARY_CONVENTION = {}


def check_packet(run, case):
    framing, m, uid, tid, pid = case['framing'], case['m'], case['uid'], case['tid'], case['pid']
    d = m['dir']
    try:
        pdu = S.encode(m)
        msg = A.build(m, transaction=tid, protocol=pid, unit=uid)
    except (S.SpecError, A.Unrepresentable):
        return None
    if len(pdu) > 253:
        return None
    regs = regions_of(framing, m, uid, pdu)
    for slug in regs:
        run.region(slug)
    if not regs:
        run.count('clean_region_cases')
    k = kind_of(m)
    ok = True
    # ---- build
    run.count('build_comparisons')
    try:
        builder = new_framer(framing, d)
        if case.get('after_failed_build'):
            # the framer object has just been asked to frame a message that cannot be encoded (a register value of 70000): the error
            # was the caller's, the next packet is built as if nothing had happened
            from pymodbus.register_write_message import WriteSingleRegisterRequest as _W
            from pymodbus.register_read_message import ReadHoldingRegistersResponse as _R
            try:
                builder.buildPacket(_W(1, 0x10000, unit=uid) if d == REQ else _R([70000], unit=uid))
            except Exception:  # noqa
                pass
            run.count('builds_after_a_failed_build')
        pkt = builder.buildPacket(msg)
    except Exception as e:  # noqa
        run.violation('build-raised:%s:%s' % (framing, k), case, repr(e))
        return False
    if framing == 'binary' and 'binary-delimiter-in-body' not in regs and any(b in (0x7B, 0x7D) for b in pkt[1:-1]):
        # the frame as actually built (its PDU may differ from the spec PDU by a C01 finding) holds a delimiter byte
        regs.append('binary-delimiter-in-body')
        run.region('binary-delimiter-in-body')
    encode_known = any(s in regs for s in ('fifo-count', 'filerecord-subresponse-layout'))
    want = ADU.build(framing, uid, pdu, tid=tid, pid=pid)
    if framing == 'binary':
        good = ADU.binary_build_ok(pkt, uid, pdu) or (encode_known and pkt[:1] == b'{' and pkt[-1:] == b'}')
        if good and not encode_known and any(b in (0x7B, 0x7D) for b in pdu[1:]):
            # The binary framing has no public specification: escaped or unescaped data is accepted (binary_build_ok) - but it has to
            # be ONE convention.  Frames whose data holds a delimiter tell the conventions apart; all of them must agree.
            conv = ADU.binary_build_conventions(pkt, uid, pdu)
            prev = BINARY_CONVENTION.get('set')
            now = conv if prev is None else (prev & conv)
            run.count('binary_convention_checks')
            if not now:
                w = BINARY_CONVENTION['witness']
                run.violation('build:binary:inconsistent-escaping', dict(case, earlier=w),
                              'packet %s follows %s, an earlier packet (%s) followed %s: delimiter bytes in the data are not escaped by one rule'
                              % (pkt.hex()[:80], sorted(conv), w.get('packet'), sorted(prev)))
                ok = False
            else:
                BINARY_CONVENTION['set'] = now
                if prev is None or now != prev:
                    BINARY_CONVENTION['witness'] = dict({k: v for k, v in case.items() if k != 'earlier'}, packet=pkt.hex()[:80])
    else:
        good = pkt == want
    if not good:
        if encode_known and len(pkt) == len(want):
            # the PDU itself is encoded differently (C01 finding); the framing around it must still be right
            own_pdu = bytes([msg.function_code]) + A.build(m).encode()
            if framing != 'binary' and pkt == ADU.build(framing, uid, own_pdu, tid=tid, pid=pid):
                run.known(regs[-1] if regs[-1] in ('fifo-count', 'filerecord-subresponse-layout') else 'fifo-count',
                          'the PDU inside the frame differs from the spec PDU (C01 finding); framing itself is correct', case)
            else:
                run.violation('build:%s:%s' % (framing, k), case, 'packet %s, reference %s' % (pkt.hex()[:120], want.hex()[:120]))
        else:
            run.violation('build:%s:%s' % (framing, k), case, 'packet %s, reference %s' % (pkt.hex()[:120], want.hex()[:120]))
        ok = False
    # ---- the same message object addressed to somebody else and framed again (a gateway re-targets a request, a retry after
    # an id change): the second packet is the reference ADU for the new ids, nothing of the first build may stick
    if ok and not regs and framing != 'tls':
        uid2, tid2 = (uid + 1) % 248, (tid + 1) & 0xFFFF
        try:
            msg.unit_id, msg.transaction_id = uid2, tid2
            fr2 = new_framer(framing, d)
            pkt2 = fr2.buildPacket(msg)
            want2 = ADU.build(framing, uid2, pdu, tid=tid2, pid=pid)
            run.count('rebuild_comparisons')
            good2 = (pkt2 == want2) if framing != 'binary' else ADU.binary_build_ok(pkt2, uid2, pdu)
            if not good2:
                run.violation('rebuild:%s:%s' % (framing, k), case, 'message framed for unit %d / tid %d, then for unit %d / tid %d: second packet %s, reference %s'
                              % (uid, tid, uid2, tid2, pkt2.hex()[:100], want2.hex()[:100]))
                ok = False
        except Exception as e:  # noqa
            run.violation('rebuild-raised:%s:%s' % (framing, k), case, repr(e))
            ok = False
        msg.unit_id, msg.transaction_id = uid, tid
    # ---- round trip through a fresh receiver, called the way the front-ends call it
    # (single omitted = the way the client transaction manager and the TLS server call it: the framer's own default)
    for single in ((None, True) if framing == 'tls' else (None, False, True)):
        got, exc = [], None
        run.count('roundtrips')
        try:
            if single is None:
                new_framer(framing, d).processIncomingPacket(pkt, got.append, [uid] if framing != 'tls' else uid)
            else:
                new_framer(framing, d).processIncomingPacket(pkt, got.append, [uid], single=single)
        except Exception as e:  # noqa
            exc = e
        why = None
        if exc is not None:
            why = ('raised', 'receiver raised %r' % (exc,))
        elif len(got) != 1:
            why = ('count%d' % len(got), '%d messages delivered' % len(got))
        else:
            o = got[0]
            if type(o) is not type(msg):
                why = ('type', 'delivered %s, sent %s' % (type(o).__name__, type(msg).__name__))
            elif not A.same(A.extract(o), A.extract(A.build(m)), pad=True):
                why = ('fields', 'delivered fields %s, sent %s' % (_short(A.extract(o)), _short(m)))
            elif framing != 'tls' and o.unit_id != uid:
                why = ('unit', 'unit id %r, sent %r' % (o.unit_id, uid))
            elif framing == 'tcp' and (o.transaction_id != tid or o.protocol_id != pid):
                why = ('tid', 'tid/pid %r/%r, sent %r/%r' % (o.transaction_id, o.protocol_id, tid, pid))
        if why is None:
            continue
        ok = False
        if not excused(run, regs, why, exc, case):
            run.violation('roundtrip:%s:%s:%s' % (framing, k, why[0]), case, 'single=%s: %s (packet %s)' % (single, why[1], pkt.hex()[:100]))
    # ---- receivers that accept every unit: the single-context server's call (units [0], single=True) and a unit list holding
    # 0 or 255; the frame is for SOME unit (any of the 256), it must be delivered with that unit id
    if ok and not regs and framing != 'tls':
        # ... and unit filters given as a tuple or holding several ids (the frame's own among them)
        for units, single in (([0], True), ([0], False), ([0xFF], False), (0, None), ((uid,), False), ((1, uid, 250), False), ([2, uid], False), ((uid, 3), None)):
            got = []
            run.count('accept_all_roundtrips')
            try:
                if single is None:
                    new_framer(framing, d).processIncomingPacket(pkt, got.append, units)
                else:
                    new_framer(framing, d).processIncomingPacket(pkt, got.append, units, single=single)
            except Exception as e:  # noqa
                got = [e]
            if len(got) != 1 or isinstance(got[0], Exception) or type(got[0]) is not type(msg) or got[0].unit_id != uid:
                ok = False
                run.violation('roundtrip-accept-all:%s:%s' % (framing, k), case, 'receiver for units %r single=%r given a frame for unit %d delivered %r (packet %s)'
                              % (units, single, uid, [getattr(x, 'unit_id', x) for x in got], pkt.hex()[:100]))
                break
    return ok


def excused(run, regs, why, exc, case):
    kind = why[0]
    if 'binary-delimiter-in-body' in regs and (kind in ('count0', 'fields', 'unit', 'type') or isinstance(exc, (struct.error, IndexError)) or type(exc).__name__ == 'ModbusIOException'):
        return run.known('binary-delimiter-in-body', 'binary frame containing 0x7B/0x7D is not delivered intact', case)
    if 'rtu-diag-fixed-size' in regs and (kind == 'count0' or isinstance(exc, (struct.error, IndexError))):
        return run.known('rtu-diag-fixed-size', 'RTU framer assumes 8-byte diagnostic frames', case)
    if 'diag-request-multiword' in regs and isinstance(exc, struct.error):
        return run.known('diag-request-multiword', 'server decoder raises struct.error for a diagnostic request with != 1 data word', case)
    if kind == 'fields' or kind == 'count0' or type(exc).__name__ == 'ModbusIOException':
        for slug in ('fifo-count', 'filerecord-subresponse-layout', 'slaveid-identifier'):
            if slug in regs and (kind == 'fields' or slug == 'fifo-count'):
                return run.known(slug, 'message does not survive its own encode/decode (C01/C02 finding) inside a correctly framed packet', case)
    return False


def checksums(run, r):
    """computeCRC / computeLRC against the bit-by-bit references"""
    def one(data):
        run.count('checksum_comparisons', 2)
        c = ADU.crc16(data)
        want = ((c & 0xFF) << 8) | (c >> 8)          # pymodbus returns the wire order as a big-endian word
        try:
            got = computeCRC(data)
            gl = computeLRC(data)
        except Exception as e:  # noqa
            run.violation('checksum-raised', {'op': 'checksum', 'data': data}, repr(e))
            return
        if got != want or not checkCRC(data, want) or checkCRC(data, want ^ 1):
            run.violation('crc', {'op': 'checksum', 'data': data}, 'computeCRC(%s)=%#06x, reference %#06x' % (data.hex(), got, want))
        if gl != ADU.lrc(data) or not checkLRC(data, ADU.lrc(data)) or checkLRC(data, ADU.lrc(data) ^ 0x10):
            run.violation('lrc', {'op': 'checksum', 'data': data}, 'computeLRC(%s)=%#04x, reference %#04x' % (data.hex(), gl, ADU.lrc(data)))
    one(b'')
    for a in range(256):
        one(bytes([a]))
    # the same byte string held in the other containers the library itself and applications pass around
    for n in (0, 1, 2, 7, 40):
        data = bytes(r.randrange(256) for _ in range(n))
        for name, conv in (('bytearray', bytearray), ('memoryview', memoryview), ('memoryview of bytearray', lambda b: memoryview(bytearray(b))), ('list of ints', list), ('tuple of ints', tuple)):
            run.count('checksum_comparisons', 2)
            c = ADU.crc16(data)
            want = ((c & 0xFF) << 8) | (c >> 8)
            try:
                ok = (computeCRC(conv(data)) == want and checkCRC(conv(data), want) and computeLRC(conv(data)) == ADU.lrc(data) and checkLRC(conv(data), ADU.lrc(data)))
                why = 'result differs from the one for bytes'
            except Exception as e:  # noqa
                ok, why = False, 'raised %r' % (e,)
            if not ok:
                run.violation('checksum-container:%s' % name, {'op': 'checksum', 'data': data}, 'checksum functions on a %s holding %s: %s' % (name, data.hex(), why))
    if run.mine(0):
        step = 1 if run.thorough else 7
        for v in range(0, 65536, step):
            one(bytes([v >> 8, v & 0xFF]))
    for _ in range(run.scale(3000, 600000)):
        one(bytes(r.randrange(256) for _ in range(r.randint(0, 300))))
        run.count('checksum_cases')


UIDS = [0, 1, 2, 0x0A, 0x0D, 0x3A, 0x7B, 0x7D, 0x7F, 0x80, 0xF7, 0xF8, 0xFE, 0xFF]
TIDS = [0, 1, 255, 256, 0x7B7D, 0x7FFF, 0x8000, 0xFFFE, 0xFFFF]


def run(run):
    r = run.rng('main')
    run.rule = ('case = (framing, decoder direction, message, unit id, transaction id, protocol id); buildPacket compared with the reference ADU, '
                'the packet fed whole to a fresh receiver (single=False and True); distinct = (framing, kind, fields, ids); '
                'non-trivial = message has a non-empty field; plus checksum comparisons on all 1/2-byte strings and random strings')
    run.assumptions = ['reference ADU builder and bitwise CRC/LRC in vmon/spec/adu.py', 'binary framing judged structurally on build (no public spec)']
    checksums(run, r)
    per_kind = run.scale(140, 25000)
    for k in gen.KINDS:
        d, fc, sub = k
        for i in range(per_kind):
            m = gen.message(r, d, fc, sub, small=(i % 3 != 0))
            for framing in ADU.FRAMINGS:
                uid = r.choice(UIDS) if i % 2 else r.randrange(256)
                tid = r.choice(TIDS) if i % 2 else r.randrange(65536)
                pid = 0 if r.random() < 0.8 else r.choice([1, 0xFFFF, r.randrange(65536)])
                case = {'framing': framing, 'm': m, 'uid': uid, 'tid': tid, 'pid': pid}
                if i % 4 == 2:
                    case['after_failed_build'] = True
                res = check_packet(run, case)
                if res is None:
                    continue
                run.count('pkt:%s:%s' % (framing, d))
                run.case(h64(repr(case)), any(v for kk, v in m.items() if kk not in ('dir', 'fc', 'sub')),
                         sample=dict(case, verdict='held' if res else 'differs'), sample_class=(framing, d))
    # every unit id on every unit-carrying framing with a fixed small message
    for uid in range(256):
        for framing in ('tcp', 'rtu', 'ascii', 'binary'):
            for m in ({'dir': REQ, 'fc': 3, 'address': 1, 'count': 2}, {'dir': RSP, 'fc': 3, 'registers': [0x0102, 0x0304]}):
                case = {'framing': framing, 'm': m, 'uid': uid, 'tid': uid * 257, 'pid': 0}
                res = check_packet(run, case)
                run.case(h64(repr(case)), True, sample=dict(case, verdict='held' if res else 'differs'), sample_class=('uid-sweep', framing))
    # payloads that look like the framing's own structures: an MBAP header inside the PDU (protocol id 0 and a length that fits the
    # rest - on TLS, which carries the bare PDU, that is where a header would be), delimiter and terminator characters as register values
    if run.shard in (None, 0):
        mimics = []
        for n in range(2, 40):
            regs = [0, 2 * n - 4] + [r.randrange(65536) for _ in range(n - 2)]
            for fc in (3, 4, 23):
                mimics.append({'dir': RSP, 'fc': fc, 'registers': list(regs)})
        for ne in range(0, 12):
            mimics.append({'dir': RSP, 'fc': 12, 'status': 0, 'event_count': 2 + ne, 'message_count': r.randrange(65536), 'events': [r.randrange(256) for _ in range(ne)]})
        for w in (0x3A30, 0x0D0A, 0x7B7D, 0x7D7B, 0x3A3A):
            mimics.append({'dir': RSP, 'fc': 3, 'registers': [w, w, w]})
            mimics.append({'dir': REQ, 'fc': 16, 'address': w, 'registers': [w, w]})
        for m in mimics:
            for framing in ADU.FRAMINGS:
                case = {'framing': framing, 'm': m, 'uid': r.choice([1, 17, 247]), 'tid': r.randrange(65536), 'pid': 0}
                res = check_packet(run, case)
                if res is None:
                    continue
                run.count('mimic_payload_packets')
                run.case(h64(repr(case)), True, sample=dict(case, verdict='held' if res else 'differs'), sample_class=('mimic', framing))
    floor = 300 if run.shard is None else 20
    run.floor('min packets per (framing, direction)', min(run.counters.get('pkt:%s:%s' % (f, d), 0) for f in ADU.FRAMINGS for d in (REQ, RSP)), floor)
    run.floor('checksum comparisons', run.counters.get('checksum_comparisons', 0), 10000 if run.shard is None else 1000)
    run.floor('clean-region packets', run.counters.get('clean_region_cases', 0), 2000 if run.shard is None else 100)


def replay(run, case):
    if case.get('op') == 'checksum':
        data = case['data']
        c = ADU.crc16(data)
        print('computeCRC', hex(computeCRC(data)), 'reference', hex(((c & 0xFF) << 8) | (c >> 8)), 'computeLRC', computeLRC(data), 'reference', ADU.lrc(data))
        if computeCRC(data) != ((c & 0xFF) << 8) | (c >> 8) or computeLRC(data) != ADU.lrc(data):
            run.violation('checksum', case, 'differs')
        return
    m = case['m']
    if 'records' in m:
        m['records'] = [tuple(x) if isinstance(x, list) else x for x in m['records']]
    if 'objects' in m:
        m['objects'] = [tuple(x) for x in m['objects']]
    if case.get('earlier'):
        w = dict(case['earlier'])
        w.pop('packet', None)
        for mm in (w['m'],):
            if 'records' in mm:
                mm['records'] = [tuple(x) if isinstance(x, list) else x for x in mm['records']]
            if 'objects' in mm:
                mm['objects'] = [tuple(x) for x in mm['objects']]
        check_packet(run, w)
        run.evaluations += 1
    print('held' if check_packet(run, {k: v for k, v in case.items() if k != 'earlier'}) else 'differs')
    run.evaluations += 1
