"""C07 - corrupted frames are never delivered as messages.

Fault enumeration: every valid frame is corrupted (all single-bit flips, double-bit flips,
byte substitutions, deletions, insertions, truncations, MBAP length edits), alone or next to
other valid frames, and fed to a fresh receiver.  Oracle = justification: every delivered
message must be encoded by a well-formed, integrity-valid frame contained in the bytes given
(reference receivers of vmon/spec/adu.py with bitwise CRC / LRC)."""
import itertools

from .. import adapters as A
from .. import gen
from ..core import h64
from ..spec import pdu as S
from ..spec import adu as ADU
from ..spec.pdu import REQ, RSP
from .c03 import new_framer
from .c06 import usable, BAD_KINDS, gen_stream
from .c01 import kind_of

LEVEL = 'fault_enumeration'
SHARDS = {'thorough': 16}
ANCHORS = ['pymodbus/framer/rtu_framer.py', 'pymodbus/framer/ascii_framer.py', 'pymodbus/framer/binary_framer.py',
           'pymodbus/framer/socket_framer.py', 'pymodbus/utilities.py']
FRAMINGS = ('rtu', 'ascii', 'binary', 'tcp')


def same_msg(o, fm):
    """delivered pymodbus object o is the message of reference frame message fm"""
    try:
        got = A.extract(o)
    except Exception:  # noqa
        return False
    if fm.get('illegal'):
        return bool(got.get('illegal')) and got['fc'] == fm['fc']
    if got.get('illegal'):
        return False
    if got['fc'] != fm['fc'] or got['dir'] != fm['dir']:
        return False
    if fm.get('malformed'):
        return True                      # integrity holds, PDU not conformant: what is decoded from it is C01/C12's business
    if kind_of(fm) in BAD_KINDS or (fm['fc'] == 8 and len(fm.get('data', [])) != 1):
        return True                      # field fidelity of these kinds is judged by C01/C02, not here
    return A.same(lossy(got), lossy(fm), pad=True)


def lossy(m):
    """fields pymodbus keeps only as booleans: out-of-spec wire values are a C01/C05 matter, not an integrity one"""
    m = dict(m)
    if m['fc'] == 5 and 'value' in m:
        m['value'] = 0xFF00 if m['value'] == 0xFF00 else 0
    if m['fc'] in (11, 12) and 'status' in m and m['dir'] == RSP:
        m['status'] = 0 if m['status'] == 0 else 0xFFFF
    if m['fc'] == 17 and 'run' in m:
        m['run'] = 0xFF if m['run'] == 0xFF else 0
    if m['fc'] == 8 and 'data' in m and m.get('sub') == 1:
        m['data'] = [0xFF00 if x == 0xFF00 else 0 for x in m['data']] if False else m['data']
    return m


def lenient_ascii_candidates(d, data):
    """ASCII spans whose 2-character LRC field is not two hex digits but is accepted by int(x, 16)
    with the right value (the known lenient-LRC finding)."""
    out = []
    n = len(data)
    for s in [i for i in range(n) if data[i] == 0x3A]:
        for e in [i for i in range(s + 1, n - 1) if data[i:i + 2] == b'\r\n']:
            text = data[s + 1:e]
            if len(text) < 6 or len(text) % 2:
                continue
            body_hex, chk = text[:-2], text[-2:]
            if all(c in ADU.HEX for c in chk) or any(c not in ADU.HEX for c in body_hex):
                continue
            try:
                v = int(chk, 16)
            except ValueError:
                continue
            body = bytes.fromhex(body_hex.decode())
            if v == ADU.lrc(body):
                m = ADU._try_illegal(d, body[1:]) or {'dir': d, 'fc': body[1] if len(body) > 1 else 0, 'malformed': True}
                if m is not None:
                    out.append(ADU.Frame(s, e + 2, body[0], body[1:], m))
    return out


RESET = 'reset'          # marker in a chunk list: the receiver's owner calls resetFrame() here


def check(run, case):
    framing, d, chunks = case['framing'], case['dir'], case['chunks']
    known_ctx = case.get('context', [])          # [(spec message, uid)] of the untouched valid frames in the stream
    fr = new_framer(framing, d)
    segments, excs = [([], [])], 0          # (chunks, deliveries) between two resets of the receiver
    for c in chunks:
        try:
            if c == RESET:
                fr.resetFrame()          # what a server does after an idle timeout and a client before its next request
                segments.append(([], []))
                continue
            segments[-1][0].append(c)
            fr.processIncomingPacket(c, segments[-1][1].append, [1], single=True)
        except Exception:  # noqa
            excs += 1
    run.count('corruptions:%s' % framing)
    run.count('exceptions_escaped', excs)
    run.count('deliveries', sum(len(dl) for _, dl in segments))
    ok = True
    for seg_chunks, seg_delivered in segments:
        if seg_delivered:
            # a delivery is justified by the bytes received since the receiver was last reset
            ok = _judge(run, case, framing, d, seg_chunks, seg_delivered, known_ctx) and ok
    return ok


def _judge(run, case, framing, d, chunks, delivered, known_ctx):
    stream = b''.join(chunks)
    cands = None
    ok = True
    tcp_state = None
    for o in delivered:
        run.count('justification_checks')
        # fast path: one of the untouched context frames
        if any(o.unit_id == uid and same_msg(o, m) for m, uid in known_ctx):
            run.count('justified_by_context_frame')
            continue
        if framing == 'tcp':
            if tcp_state is None:
                frames, pos, err = ADU.parse_stream('tcp', d, stream)
                tcp_state = (frames, pos, err)
            frames, pos, err = tcp_state
            if any(f.unit == o.unit_id and f.tid == o.transaction_id and same_msg(o, f.msg) for f in frames):
                run.count('justified_by_reference_receiver')
                continue
            # not justified by the valid prefix of the stream: which region is the input in?
            left = len(stream) - pos
            acc = b''
            for c in chunks:                       # bytes pending (per the reference receiver) when each receive call ends
                acc += c
                fs2, pos2, err2 = ADU.parse_stream('tcp', d, acc)
                if err2 is None and 0 < len(acc) - pos2 <= 7:
                    left = len(acc) - pos2
                    break
            if err is not None:
                run.region('tcp-length-inconsistent-with-pdu')
                run.known('tcp-length-inconsistent-with-pdu', 'TCP framer delivers a frame whose MBAP length disagrees with its PDU', case)
                ok = False
                continue
            if 0 < left:
                # the stream ends inside a frame: split/short-header behaviour of the TCP framer
                slug = 'socket-short-header'
                run.region(slug)
                if type(o).__name__ in ('IllegalFunctionRequest', 'ExceptionResponse') or True:
                    run.known(slug, 'TCP framer delivers a message decoded from an incomplete frame / raw fragment', case)
                    ok = False
                    continue
            run.violation('unjustified:tcp:%s' % type(o).__name__, case, _msg(framing, d, stream, o))
            ok = False
            continue
        if cands is None:
            cands = ADU.candidates(framing, d, stream, loose=True)
            run.count('candidate_sets_computed')
        if any((f.unit == o.unit_id) and same_msg(o, f.msg) for f in cands):
            run.count('justified_by_reference_receiver')
            continue
        if framing == 'ascii':
            len_c = lenient_ascii_candidates(d, stream)
            if any(f.unit == o.unit_id and same_msg(o, f.msg) for f in len_c):
                run.region('ascii-lrc-field-parsed-leniently')
                run.known('ascii-lrc-field-parsed-leniently', 'ASCII framer accepts an LRC field that is not two hex digits (int(x,16) leniency)', case)
                ok = False
                continue
        run.violation('unjustified:%s:%s' % (framing, type(o).__name__), case, _msg(framing, d, stream, o))
        ok = False
    return ok


def _msg(framing, d, stream, o):
    try:
        f = A.extract(o)
    except Exception as e:  # noqa
        f = repr(e)
    return '%s/%s receiver delivered %s %r (unit %r) from bytes %s which contain no valid frame for it' % (
        framing, d, type(o).__name__, f, getattr(o, 'unit_id', None), stream.hex()[:160])


# ------------------------------------------------------------------ corruption generators
def flips1(frame):
    for i in range(8 * len(frame)):
        b = bytearray(frame)
        b[i // 8] ^= 1 << (i % 8)
        yield ('flip1', i), bytes(b)


def flips2(frame, r=None, limit=None):
    n = 8 * len(frame)
    pairs = itertools.combinations(range(n), 2)
    if limit is not None:
        pairs = (tuple(sorted(r.sample(range(n), 2))) for _ in range(limit))
    for i, j in pairs:
        b = bytearray(frame)
        b[i // 8] ^= 1 << (i % 8)
        b[j // 8] ^= 1 << (j % 8)
        yield ('flip2', i, j), bytes(b)


def bursts(frame, r, count):
    """burst errors up to 16 bits (first and last bit of the burst flipped, random inside)"""
    n = 8 * len(frame)
    for _ in range(count):
        ln = r.randint(2, 16)
        s = r.randrange(0, max(1, n - ln))
        pat = 1 | (1 << (ln - 1)) | r.getrandbits(ln)
        b = bytearray(frame)
        for k in range(ln):
            if pat >> k & 1 and s + k < n:
                b[(s + k) // 8] ^= 1 << ((s + k) % 8)
        yield ('burst', s, ln, pat), bytes(b)


def edits(frame, r, framing):
    n = len(frame)
    delim = {'ascii': [0x3A, 0x0D, 0x0A, 0x20, 0x2B, 0x47], 'binary': [0x7B, 0x7D], 'rtu': [0x00], 'tcp': [0x00]}[framing]
    for i in range(n):
        for v in [0x00, 0xFF, frame[i] ^ 0x80, r.randrange(256)] + delim:
            if v != frame[i]:
                b = bytearray(frame)
                b[i] = v
                yield ('subst', i, v), bytes(b)
        yield ('delete', i), frame[:i] + frame[i + 1:]
        for v in [r.randrange(256)] + delim[:2]:
            yield ('insert', i, v), frame[:i] + bytes([v]) + frame[i:]
    for k in range(0, n):
        yield ('truncate', k), frame[:k]
    for extra in (b'\x00', bytes([r.randrange(256)]), bytes(r.randrange(256) for _ in range(3))):
        yield ('extend', extra.hex()), frame + extra
    if framing == 'tcp':
        ln = (frame[4] << 8) | frame[5]
        for v in {0, 1, 2, 65535, ln + 1, ln + 2, ln + 3, max(0, ln - 1), max(0, ln - 2), max(0, ln - 3)} - {ln}:
            b = bytearray(frame)
            b[4], b[5] = (v >> 8) & 0xFF, v & 0xFF
            yield ('mbaplen', v), bytes(b)


def misspans(frame, framing, r):
    """the check value recomputed by a sender over the wrong extent of the frame (unit id left out, start character included,
    last data byte left out), alone or behind one or two bytes of line noise: no such frame carries a valid check"""
    if framing == 'tcp':
        return
    if framing == 'rtu':
        body = frame[:-2]
        spans = [body[1:], body[:-1], body + b'\x00']
        def mk(sp):
            c = ADU.crc16(sp)
            return body + bytes([c & 0xFF, c >> 8])
        junkpool = [0x00, 0xFF, 0x55]
    elif framing == 'binary':
        body = frame[1:-3]
        spans = [body[1:], body[:-1], b'{' + body, body + b'\x00']
        def mk(sp):
            c = ADU.crc16(sp)
            return b'{' + body + bytes([c & 0xFF, c >> 8]) + b'}'
        junkpool = [0x00, 0xFF, 0x55, 0x0A]
    else:
        body = bytes.fromhex(frame[1:-4].decode())
        spans = [body[1:], body[:-1], b':' + body]
        def mk(sp):
            return b':' + (body + bytes([ADU.lrc(sp)])).hex().upper().encode() + b'\r\n'
        junkpool = [0x00, 0x20, 0x30, 0x46]
    for si, sp in enumerate(spans):
        try:
            bad = mk(sp)
        except Exception:  # noqa
            continue
        if framing == 'binary' and any(b in (0x7B, 0x7D) for b in bad[1:-1]):
            continue
        for k in (0, 1, 2):
            junk = bytes(r.choice(junkpool) for _ in range(k))
            yield ('misspan', si, k), junk + bad


def run(run):
    r = run.rng('main')
    run.rule = ('case = (framing, direction, valid frame, one corruption, context: alone / after a valid frame / before a valid frame); every delivery must be '
                'justified by a valid frame in the bytes given (reference receivers); distinct = (framing, direction, corrupted bytes, context); '
                'non-trivial = the corrupted bytes differ from every valid frame of the stream (a corruption was applied)')
    run.assumptions = ['reference receivers and bitwise CRC/LRC in vmon/spec/adu.py', 'justification only: missing deliveries are C06/C11 matters',
                       'TCP: after the first frame whose MBAP length disagrees with its PDU nothing later in the stream is judged']
    nframes = run.scale(36, 6000)
    idx = 0
    for framing in FRAMINGS:
        for d in (REQ, RSP):
            for fi in range(nframes):
                msgs = gen_stream(r, framing, d, 3, small=True)
                if len(msgs) < 3:
                    continue
                (m, uid, tid), ctx1, ctx2 = msgs
                frame = ADU.build(framing, uid, S.encode(m), tid=tid)
                if len(frame) > 40 and not run.thorough:
                    continue
                f1 = ADU.build(framing, ctx1[1], S.encode(ctx1[0]), tid=ctx1[2])
                f2 = ADU.build(framing, ctx2[1], S.encode(ctx2[0]), tid=ctx2[2])
                corr = itertools.chain(
                    flips1(frame),
                    flips2(frame) if len(frame) <= (16 if run.thorough else 9) and fi < 2 else flips2(frame, r, 300 if not run.thorough else 3000),
                    bursts(frame, r, 200 if not run.thorough else 2000),
                    edits(frame, r, framing),
                    misspans(frame, framing, r))
                for label, bad in corr:
                    idx += 1
                    if not run.mine(idx):
                        continue
                    if bad == frame:
                        continue
                    ctxsel = idx % 3
                    if ctxsel == 0:
                        chunks, context = [bad], []
                    elif ctxsel == 1:
                        chunks, context = [f1, bad], [(ctx1[0], ctx1[1])]
                    else:
                        chunks, context = [bad, f2], [(ctx2[0], ctx2[1])]
                    if idx % 7 == 0:
                        chunks = [b''.join(chunks)]          # everything in one read
                    elif idx % 7 == 3 and label[0] in ('flip1', 'subst') and len(bad) == len(frame):
                        # the intact frame starts to arrive and is abandoned (its owner resets the receiver), then the damaged one comes
                        # whole: nothing computed for the abandoned bytes may count for the damaged frame
                        p = label[1] // 8 if label[0] == 'flip1' else label[1]
                        if p + 1 < len(frame):
                            k = r.randrange(p + 1, len(frame))
                            # (half of the time the receiver has already handled a frame: a used receiver is in another state than a new one)
                            chunks, context = ([f1, frame[:k], RESET, bad], [(ctx1[0], ctx1[1])]) if idx % 2 else ([frame[:k], RESET, bad], [])
                            run.count('abandoned_then_damaged')
                    case = {'framing': framing, 'dir': d, 'chunks': chunks, 'context': context, 'corruption': list(label), 'original': frame}
                    ok = check(run, case)
                    run.count('kind:%s' % label[0])
                    run.case(h64((framing, d, bad, ctxsel)), True,
                             sample={'framing': framing, 'direction': d, 'original': frame.hex(), 'corruption': list(label), 'fed': [c.hex() if isinstance(c, bytes) else c for c in chunks],
                                     'verdict': 'no unjustified delivery' if ok else 'unjustified delivery'},
                             sample_class=(framing, label[0]))
    # every byte value at one position of a fixed frame, each with every single-bit flip of that byte: whatever a table-driven checksum
    # does with a byte, it is exercised for all 256 of them (a wrong table entry accepts one of these flips)
    if run.shard in (None, 0):
        for framing in ('rtu', 'binary', 'ascii'):
            for pos_field in ('address', 'count'):
                for v in range(256):
                    m = {'dir': REQ, 'fc': 3, 'address': 0x1200 | v if pos_field == 'address' else 0x0102, 'count': 1 + (v if pos_field == 'count' else 0) % 125}
                    frame = ADU.build(framing, 17, S.encode(m))
                    if framing == 'binary' and any(b in (0x7B, 0x7D) for b in frame[1:-1]):
                        continue
                    body_start = {'rtu': 0, 'binary': 1, 'ascii': 1}[framing]
                    span = range(8 * body_start, 8 * (len(frame) - (2 if framing == 'rtu' else 3 if framing == 'binary' else 4)))
                    for bit in span:
                        b = bytearray(frame)
                        b[bit // 8] ^= 1 << (bit % 8)
                        case = {'framing': framing, 'dir': REQ, 'chunks': [bytes(b)], 'context': [], 'corruption': ['table-sweep', v, bit], 'original': frame}
                        ok = check(run, case)
                        run.count('kind:table-sweep')
                        run.case(h64((framing, 'table-sweep', pos_field, v, bit)), True, sample=None)
    # binary frames whose unit id IS the start character's code (unit 123 = 0x7B, a legal address): every byte value inserted at every
    # position - among them a second 0x7B next to the first, which a receiver that "un-doubles" braces before checking would accept
    if run.shard in (None, 0):
        for m in ({'dir': REQ, 'fc': 3, 'address': 0x0102, 'count': 3}, {'dir': REQ, 'fc': 6, 'address': 0x0010, 'value': 0x1234},
                  {'dir': REQ, 'fc': 16, 'address': 0x0020, 'registers': [0x0005, 0x0607, 0x0809]}, {'dir': REQ, 'fc': 15, 'address': 0x0030, 'bits': [True, False, True, True]},
                  {'dir': RSP, 'fc': 3, 'registers': [0x0102, 0x0304]}, {'dir': RSP, 'fc': 1, 'bits': [True] * 8}):
            frame = ADU.build('binary', 0x7B, S.encode(m))
            if any(b in (0x7B, 0x7D) for b in frame[2:-1]):
                continue
            for i in range(1, len(frame)):
                for v in ([0x7B, 0x7D, 0x00, 0xFF] if not run.thorough else range(256)):
                    bad = frame[:i] + bytes([v]) + frame[i:]
                    case = {'framing': 'binary', 'dir': m['dir'], 'chunks': [bad], 'context': [], 'corruption': ['insert-unit-7b', i, v], 'original': frame}
                    check(run, case)
                    run.count('kind:insert-unit-7b')
                    run.case(h64(('binary', 'insert-unit-7b', repr(m), i, v)), True, sample=None)
    run.floor('corruptions per framing (min)', min(run.counters.get('corruptions:%s' % f, 0) for f in FRAMINGS), 5000 if run.shard is None else 300)
    run.floor('deliveries judged', run.counters.get('justification_checks', 0), 2000 if run.shard is None else 100)
    run.floor('single-bit flips', run.counters.get('kind:flip1', 0), 2000 if run.shard is None else 100)
    run.floor('double-bit flips', run.counters.get('kind:flip2', 0), 5000 if run.shard is None else 300)


def replay(run, case):
    case['context'] = [(m, uid) for m, uid in case.get('context', [])]
    print('no unjustified delivery' if check(run, case) else 'unjustified delivery')
    run.evaluations += 1
