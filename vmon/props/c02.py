"""C02 - encode/decode are mutual inverses and encoding is pure.

Monitors: (a) a history monitor pushing every message through
   encode, encode, decode, encode(decoded), decode-into-same, decode-other-into-same, encode
and (b) icontract purity contracts attached from here to the real encode() of every message
class (public fields unchanged by encode), also evaluated under the repository's own tests
in the thorough tier."""
import json
import os
import struct
import subprocess
import sys

from .. import adapters as A
from .. import gen
from .. import contracts
from ..core import h64, ROOT, OUT
from ..spec import pdu as S
from ..spec.pdu import REQ, RSP
from .c01 import decoder, kind_of, _short, ANCHORS, regions_of  # noqa: F401

LEVEL = 'exploration'
NEEDS_DEPS = True
SHARDS = {'thorough': 16}


def public_state(obj):
    try:
        return S.norm(A.extract(obj))
    except Exception as e:  # noqa
        return ('unreadable', repr(e))


# ------------------------------------------------------------ known-finding classifiers
def classify(run, m, step, detail, case, exc=None):
    """step: which comparison failed.  Returns True if excused by a listed finding."""
    k = kind_of(m)
    if k == 'rsp/24' and len(m['values']) >= 1:
        if step in ('roundtrip-fields', 'roundtrip-none', 'refixed', 'redecode', 'decode-other'):
            return run.known('fifo-count', 'ReadFifoQueueResponse does not survive encode/decode (count field is a byte length)', case)
    if k == 'rsp/20' and len(m['records']) >= 1:
        if step in ('roundtrip-fields', 'roundtrip-none', 'refixed', 'redecode', 'decode-other', 'roundtrip-raised'):
            return run.known('filerecord-subresponse-layout', 'ReadFileRecordResponse does not survive encode/decode (sub-response header order)', case)
    if k == 'rsp/17':
        if step in ('roundtrip-fields', 'refixed', 'redecode', 'decode-other'):
            return run.known('slaveid-identifier', 'ReportSlaveIdResponse decode appends the run-indicator byte to identifier', case)
    if k == 'rsp/23' and step in ('redecode', 'decode-other'):
        if detail.startswith('ACCUM'):
            return run.known('rwm-response-accumulates', 'ReadWriteMultipleRegistersResponse.decode appends to the registers of an earlier decode', case)
    if k == 'req/8/0' and len(m['data']) != 1:
        if step == 'roundtrip-raised' and isinstance(exc, struct.error):
            return run.known('diag-request-multiword', 'server decoder raises struct.error for a diagnostic request with != 1 data word', case)
    return False


def _is_concat(prev, now, fresh):
    """now.registers == prev.registers + fresh.registers and nothing else differs"""
    try:
        return (tuple(now['registers']) == tuple(prev['registers']) + tuple(fresh['registers'])
                and {k: v for k, v in now.items() if k != 'registers'} == {k: v for k, v in fresh.items() if k != 'registers'})
    except Exception:  # noqa
        return False


def fail(run, m, step, detail, case, exc=None):
    if classify(run, m, step, detail, case, exc):
        return
    if step == 'decode-other' and case.get('other') and classify(run, case['other'], step, detail, case, exc):
        return
    if True:
        run.violation('%s:%s' % (step, kind_of(m)), case, '%s for %s: %s' % (step, _short(m), detail))


# ------------------------------------------------------------ the history monitor
def check_history(run, m, other=None):
    case = {'m': m, 'other': other}
    try:
        obj = A.build(m)
        want = S.encode(m)
    except (A.Unrepresentable, S.SpecError):
        return None
    if len(want) > 253:
        return None
    k = kind_of(m)
    run.count('hist:' + k)
    ok = True
    before = public_state(obj)
    try:
        e1 = obj.encode()
        mid = public_state(obj)
        e2 = obj.encode()
    except Exception as e:  # noqa
        run.violation('encode-raised:%s' % k, case, 'encode raised %r' % (e,))
        return False
    after = public_state(obj)
    run.count('comparisons', 3)
    if mid != before or after != before:
        fail(run, m, 'encode-mutates-fields', '%r -> %r' % (before, after), case)
        ok = False
    if e1 != e2:
        fail(run, m, 'encode-twice-differs', '%s then %s' % (e1.hex()[:80], e2.hex()[:80]), case)
        ok = False
    fc = bytes([obj.function_code])
    d, exc = None, None
    try:
        d = decoder(m['dir']).decode(fc + e1)
    except Exception as e:  # noqa
        exc = e
    run.count('comparisons')
    if exc is not None:
        fail(run, m, 'roundtrip-raised', repr(exc), case, exc)
        return False
    if d is None:
        fail(run, m, 'roundtrip-none', 'decoder returned None for %s' % (fc + e1).hex()[:80], case)
        return False
    if type(d) is not type(obj):
        fail(run, m, 'roundtrip-type', '%s != %s' % (type(d).__name__, type(obj).__name__), case)
        return False
    src = A.extract(obj)
    got = public_state(d)
    if not A.same(A.extract(d) if not isinstance(got, tuple) or got[:1] != ('unreadable',) else {}, src, pad=True):
        fail(run, m, 'roundtrip-fields', '%s != %s' % (_short(got), _short(S.norm(src))), case)
        ok = False
    # fixed point: encoding the freshly decoded object yields identical bytes
    run.count('comparisons')
    try:
        e3 = d.encode()
        if e3 != e1:
            fail(run, m, 'refixed', 'decoded object re-encodes to %s, original %s' % (e3.hex()[:80], e1.hex()[:80]), case)
            ok = False
    except Exception as e:  # noqa
        fail(run, m, 'refixed', 'encode of decoded object raised %r' % (e,), case)
        ok = False
    # decoding the same bytes again into the same object must not accumulate
    run.count('comparisons')
    first = public_state(d)
    try:
        d.decode(e1)
        second = public_state(d)
        if second != first:
            acc = 'ACCUM ' if _is_concat(first, second, first) else ''
            fail(run, m, 'redecode', acc + 'second decode into the same object: %s -> %s' % (_short(first), _short(second)), case)
            ok = False
    except Exception as e:  # noqa
        fail(run, m, 'redecode', 'raised %r' % (e,), case)
        ok = False
    # decoding other bytes into the used object == decoding them into a fresh one
    if other is not None:
        try:
            oe = A.build(other).encode()
            fresh = decoder(m['dir']).decode(fc + oe)
        except Exception:  # noqa
            fresh = None
        if fresh is not None and type(fresh) is type(d):
            run.count('comparisons')
            try:
                prev = public_state(d)
                d.decode(oe)
                if public_state(d) != public_state(fresh):
                    acc = 'ACCUM ' if _is_concat(prev, public_state(d), public_state(fresh)) else ''
                    fail(run, m, 'decode-other', acc + 'reused object %s, fresh object %s' % (_short(public_state(d)), _short(public_state(fresh))), case)
                    ok = False
                elif d.encode() != fresh.encode():
                    fail(run, m, 'decode-other', 'reused object encodes differently from a fresh one', case)
                    ok = False
            except Exception as e:  # noqa
                fail(run, m, 'decode-other', 'raised %r' % (e,), case)
                ok = False
        if fresh is not None:
            _scribble(fresh)
    _scribble(d)            # the application edits what it decoded (see c01.scribble): nothing of it may be shared with the library
    return ok


def _scribble(o):
    from .c01 import scribble
    try:
        scribble(o)
    except Exception:  # noqa
        pass


def check_wire_history(run, m):
    """start from spec-conformant bytes: decode, re-encode (must reproduce the bytes), decode again"""
    case = {'wire': True, 'm': m}
    try:
        pdu = S.encode(m)
        S.decode(m['dir'], pdu)
    except S.SpecError:
        return None
    if len(pdu) > 253:
        return None
    k = kind_of(m)
    try:
        d = decoder(m['dir']).decode(pdu)
    except Exception as e:  # noqa
        fail(run, m, 'roundtrip-raised', repr(e), case, e)
        return False
    if d is None:
        fail(run, m, 'roundtrip-none', 'decoder returned None', case)
        return False
    run.count('wire:' + k)
    run.count('comparisons', 2)
    ok = True
    try:
        e = bytes([d.function_code]) + d.encode()
        e2 = bytes([d.function_code]) + d.encode()
    except Exception as ex:  # noqa
        fail(run, m, 'refixed', 'encode of decoded object raised %r' % (ex,), case)
        return False
    if e != pdu:
        fail(run, m, 'refixed', 'decoded from %s, re-encodes to %s' % (pdu.hex()[:80], e.hex()[:80]), case)
        ok = False
    if e2 != e:
        fail(run, m, 'encode-twice-differs', 'decoded object: %s then %s' % (e.hex()[:80], e2.hex()[:80]), case)
        ok = False
    _scribble(d)
    return ok


def run(run):
    r = run.rng('main')
    run.rule = ('case = one message pushed through the call history encode,encode,decode,encode(decoded),'
                'decode-into-same,decode-other-into-same,encode, all comparisons made; distinct = (kind, field values); '
                'non-trivial = some field non-zero / list non-empty')
    run.assumptions = ['adapter table vmon/adapters.py', 'spec codec only used to bound sizes (<= 253-byte PDU)']
    installed = contracts.install_purity(recorder=None)
    # a class registered on one decoder object (the documented extension point) must not change what any standard PDU decodes to
    from .c01 import custom_registration
    custom_registration(run)
    per_kind = run.scale(600, 50000)
    for k in gen.KINDS:
        d, fc, sub = k
        for i in range(per_kind):
            m = gen.message(r, d, fc, sub)
            other = gen.message(r, d, fc, sub, small=True) if i % 2 == 0 else None
            res = check_history(run, m, other)
            if res is None:
                continue
            regs = regions_of(m) + (['rwm-response-accumulates'] if kind_of(m) == 'rsp/23' and m['registers'] else [])
            if other is not None:
                regs = sorted(set(regs + regions_of(other)))
            for slug in regs:
                run.region(slug)
            if not regs:
                run.count('clean_region_cases')
            if i % 3 == 0:
                w = gen.message(r, d, fc, sub)
                if d == RSP and fc == 43:
                    w['conformity'], w['more'], w['next'] = r.choice([1, 2, 3, 0x81, 0x82, 0x83]), r.choice([0, 0xFF]), gen.byte(r)
                wres = check_wire_history(run, w)
                if wres is not None:
                    wregs = regions_of(w)
                    for slug in wregs:
                        run.region(slug)
                    if not wregs:
                        run.count('clean_region_cases')
                    run.case(h64(('wire', sorted((a, repr(b)) for a, b in w.items()))), True,
                             sample={'kind': kind_of(w), 'wire_pdu': S.encode(w).hex()[:100], 'history': 'dec,enc,enc',
                                     'verdict': 'held' if wres else 'differs'}, sample_class=('wire', kind_of(w)))
            run.case(h64(('hist', sorted((a, repr(b)) for a, b in m.items()))),
                     any(v for kk, v in m.items() if kk not in ('dir', 'fc', 'sub')),
                     sample={'kind': kind_of(m), 'message': m, 'history': 'enc,enc,dec,enc,dec-same,dec-other,enc',
                             'verdict': 'held' if res else 'differs'},
                     sample_class=kind_of(m))
    # contract results
    stats = contracts.purity_stats()
    run.observed['contract_evaluations'] = stats['evaluations_total']
    run.observed['contract_classes_decorated'] = installed
    run.observed['contract_evaluations_per_class_min'] = stats['min_per_class']
    for cls, fires in stats['fired'].items():
        for what in fires[:3]:
            # a firing that the history monitor has not already classified
            run.count('contract_firings')
            run.violation('contract-purity:%s' % cls, {'class': cls, 'what': what}, 'encode() changed public fields of %s: %s' % (cls, what))
    kinds = [gen.kind_name(k) if k[1] != 'exc' else 'rsp/exc' for k in gen.KINDS]
    run.floor('min histories per message kind', min(run.counters.get('hist:' + k, 0) for k in kinds),
              100 if run.shard is None else 5)
    run.floor('purity contract evaluations', stats['evaluations_total'], 1000 if run.shard is None else 50)
    if stats['zero_classes']:
        run.observed['contract_zero_eval_classes'] = stats['zero_classes']
    if run.thorough and (run.shard in (None, 0)):
        suite_with_contracts(run)


def suite_with_contracts(run):
    """Run the repository's own tests with the purity contracts attached (pytest plugin)."""
    from .. import repo
    os.makedirs(OUT, exist_ok=True)
    outf = os.path.join(OUT, 'contracts-suite-%d.json' % os.getpid())
    env = dict(os.environ, PYTHONPATH=os.pathsep.join([ROOT, os.path.join(ROOT, '.deps')]),
               VMON_CONTRACT_OUT=outf, PYTHONDONTWRITEBYTECODE='1')
    cmd = [sys.executable, '-m', 'pytest', '-q', '-x', '-p', 'no:cacheprovider', '-p', 'vmon.pytest_contracts',
           '--continue-on-collection-errors', '--timeout=600',
           'test/test_bit_read_messages.py', 'test/test_bit_write_messages.py', 'test/test_register_read_messages.py',
           'test/test_register_write_messages.py', 'test/test_file_message.py', 'test/test_other_messages.py',
           'test/test_diag_messages.py', 'test/test_mei_messages.py', 'test/test_factory.py', 'test/test_pdu.py',
           'test/test_transaction.py', 'test/test_all_messages.py']
    try:
        p = subprocess.run(cmd, cwd=repo.REPO, env=env, stdout=subprocess.PIPE, stderr=subprocess.STDOUT, timeout=900)
    except subprocess.TimeoutExpired:
        run.inconclusive_reason('contracts-on suite run timed out')
        return
    if not os.path.exists(outf):
        run.inconclusive_reason('contracts-on suite run wrote no result: %s' % p.stdout.decode(errors='replace')[-300:])
        return
    with open(outf) as f:
        res = json.load(f)
    os.unlink(outf)
    run.observed['suite_contract_evaluations'] = res['evaluations_total']
    run.observed['suite_contract_firings'] = {k: v[:2] for k, v in res['fired'].items()}
    run.observed['suite_tail'] = p.stdout.decode(errors='replace').strip().splitlines()[-1:]
    for cls, fires in res['fired'].items():
        run.violation('contract-purity-under-suite:%s' % cls, {'class': cls, 'what': fires[0]},
                      'under the repository tests encode() changed public fields of %s: %s' % (cls, fires[0]))
    if res['evaluations_total'] == 0:
        run.inconclusive_reason('purity contracts were never evaluated under the repository tests')


def replay(run, case):
    if case.get('op') == 'custom-registration':
        from .c01 import custom_registration
        custom_registration(run)
        run.evaluations += 1
        return
    if 'class' in case:
        print('contract firing recorded for', case['class'], case.get('what'))
        run.violation('contract-purity:%s' % case['class'], case, 'recorded contract firing (re-run the check to reproduce)')
        return
    if case.get('wire'):
        m = case['m']
        if 'records' in m:
            m['records'] = [tuple(x) if isinstance(x, list) else x for x in m['records']]
        if 'objects' in m:
            m['objects'] = [tuple(x) for x in m['objects']]
        print('wire history', 'held' if check_wire_history(run, m) else 'differs / not comparable')
        run.evaluations += 1
        return
    m, other = case['m'], case.get('other')
    for mm in (m, other):
        if mm:
            if 'records' in mm:
                mm['records'] = [tuple(x) if isinstance(x, list) else x for x in mm['records']]
            if 'objects' in mm:
                mm['objects'] = [tuple(x) for x in mm['objects']]
    contracts.install_purity(recorder=None)
    print('history', 'held' if check_history(run, m, other) else 'differs / not comparable')
    run.evaluations += 1
