"""C11 - receivers resynchronise after noise and never go deaf (RTU, ASCII, binary).

Bounded-liveness restatement: after the last garbage byte, once BOUND = 2 x max frame further
bytes of valid traffic have been given, every subsequent valid frame is delivered exactly
once and in order; and len(framer._buffer) stays <= BOUND + largest read at every call.
The monitor feeds garbage followed by a long run of unique valid frames (one or k per read)
to a fresh receiver, framer-level and through the serial-style server handler."""
import struct

from .. import adapters as A
from .. import gen
from ..core import h64
from ..spec import pdu as S
from ..spec import adu as ADU
from ..spec.pdu import REQ, RSP
from .c03 import new_framer
from .c06 import dkey

LEVEL = 'fault_enumeration'
SHARDS = {'thorough': 16}
ANCHORS = ['pymodbus/framer/rtu_framer.py', 'pymodbus/framer/ascii_framer.py', 'pymodbus/framer/binary_framer.py',
           'pymodbus/framer/__init__.py', 'pymodbus/server/sync.py']
FRAMINGS = ('rtu', 'ascii', 'binary')
BOUND = {'rtu': 512, 'binary': 512, 'ascii': 1030}
UNIT = 1


def valid_frames(framing, d, n, r, big):
    """n unique valid frames for unit 1 (unique addresses identify each frame)"""
    out = []
    for i in range(n):
        if d == REQ:
            if big and i % 2 == 0:
                m = {'dir': REQ, 'fc': 16, 'address': 1000 + i, 'registers': [(i * 37 + j) & 0x7A7A for j in range(60 + i % 40)]}
            else:
                m = {'dir': REQ, 'fc': r.choice([3, 4, 1, 6]), 'address': 1000 + i, 'count': 1 + i % 7}
                if m['fc'] == 6:
                    m = {'dir': REQ, 'fc': 6, 'address': 1000 + i, 'value': (i * 31) & 0x7A7A}
        else:
            if big and i % 2 == 0:
                m = {'dir': RSP, 'fc': 3, 'registers': [1000 + i] + [(i * 37 + j) & 0x7A7A for j in range(50 + i % 60)]}
            else:
                m = {'dir': RSP, 'fc': 6, 'address': 1000 + i, 'value': (i * 31) & 0x7A7A}
        frame = ADU.build(framing, UNIT, S.encode(m))
        bump = 0
        while framing == 'binary' and any(b in (0x7B, 0x7D) for b in frame[1:-1]):
            # keep the traffic inside the binary framer's clean region (no delimiter bytes in body or CRC)
            bump += 1
            m = dict(m)
            if 'registers' in m:
                m['registers'] = list(m['registers'])
                m['registers'][-1] = (m['registers'][-1] + bump) & 0x7A7A
            elif 'value' in m:
                m['value'] = (m['value'] + bump) & 0x7A7A
            else:
                m['count'] = 1 + (m['count'] + bump) % 100
            frame = ADU.build(framing, UNIT, S.encode(m))
        out.append((m, frame))
    return out


def mkey(framing, d, m):
    o = A.build(m, unit=UNIT)
    o.unit_id = UNIT
    if framing == 'tcp':
        o.transaction_id, o.protocol_id = 0, 0
    return dkey(framing, o)


def garbage(r, framing, d, cls):
    good = ADU.build(framing, UNIT, S.encode({'dir': REQ, 'fc': 3, 'address': 7, 'count': 2} if d == REQ else {'dir': RSP, 'fc': 3, 'registers': [1, 2]}))
    if cls == 'random':
        return bytes(r.randrange(256) for _ in range(r.randint(1, 40)))
    if cls == 'random-long':
        return bytes(r.randrange(256) for _ in range(r.randint(200, 700)))
    if cls == 'line-noise':
        # a stuck or chattering line: kilobytes of noise that never contain a start character (0x00 / 0xFF runs, wrong-baud chatter)
        n = r.randint(1030, 3000)
        x = r.random()
        if x < 0.3:
            return bytes([r.choice([0x00, 0xFF])]) * n
        pool = [b for b in range(256) if b not in (0x3A, 0x7B)]
        return bytes(r.choice(pool) for _ in range(n))
    if cls == 'unknown-function':
        # legal traffic on a shared line that is not noise at all: well-formed, checksum-valid requests with function codes this
        # implementation does not know (RTU sizes such frames as unit + code + one byte + CRC)
        if d != REQ:
            return bytes(r.randrange(256) for _ in range(r.randint(1, 40)))
        return b''.join(ADU.build(framing, UNIT, bytes([fc, r.randrange(256)])) for fc in r.sample([0x41, 0x42, 0x55, 0x64, 0x09, 0x7E], 1 if framing != 'ascii' else r.randint(1, 3)))      # (one per read: several frames per read are the recorded one-frame-per-call / skipped-frame findings)
    if cls == 'delimiters':
        pool = {'rtu': [0, 1, 3, 0x10, 0xFF], 'ascii': [0x3A, 0x0D, 0x0A, 0x30, 0x46, 0x20], 'binary': [0x7B, 0x7D, 0x01, 0x00]}[framing]
        return bytes(r.choice(pool) for _ in range(r.randint(1, 12)))
    if cls == 'flipped':
        b = bytearray(good)
        i = r.randrange(8 * len(b))
        b[i // 8] ^= 1 << (i % 8)
        return bytes(b)
    if cls == 'truncated':
        return good[:r.randint(1, len(good) - 1)]
    if cls == 'foreign-unit':
        return ADU.build(framing, r.choice([2, 9, 200]), S.encode({'dir': REQ, 'fc': 3, 'address': 7, 'count': 2} if d == REQ else {'dir': RSP, 'fc': 3, 'registers': [1, 2]}))
    if cls == 'huge-bytecount':
        if framing == 'rtu':
            return bytes([UNIT, 0x10 if d == REQ else 0x03]) + (b'\x00\x01\x00\x7b\xfa' if d == REQ else b'\xfa') + bytes(r.randrange(256) for _ in range(r.randint(0, 5)))
        if framing == 'ascii':
            return b':' + b'01100001007BFA' + bytes(r.choice(b'0123456789ABCDEF') for _ in range(r.randint(0, 6)))
        return b'{' + bytes([UNIT, 0x10, 0, 1, 0, 0x7b, 0xfa])
    if cls == 'bad-checksum':
        b = bytearray(good)
        if framing == 'ascii':
            b[-3] = ord('0') if b[-3] != ord('0') else ord('1')
        elif framing == 'rtu':
            b[-1] ^= 0x55
        else:
            b[-2] ^= 0x55
        return bytes(b)
    raise ValueError(cls)


CLASSES = ['random', 'random-long', 'delimiters', 'flipped', 'truncated', 'foreign-unit', 'huge-bytecount', 'bad-checksum', 'line-noise', 'unknown-function']


def ascii_stray_colon(g):
    """a ':' in the garbage that does not start a complete valid ASCII frame inside the garbage"""
    for i in range(len(g)):
        if g[i] == 0x3A:
            e = g.find(b'\r\n', i)
            if e < 0 or ADU._ascii_frame(REQ, g, i, e + 2) is None and ADU._ascii_frame(RSP, g, i, e + 2) is None:
                return True
    return False


def ascii_quiet_span(g, following):
    """handler level: a ':' in the noise whose span up to the next CR LF (in the noise or in the traffic behind it) is clean
    hex of even length with a wrong LRC - the ASCII framer then neither delivers nor raises, so no handler ever resets it
    (spans with other characters make the framer raise and the handlers reset)"""
    data = g + following
    HEX = b'0123456789ABCDEFabcdef'
    i = data.find(b':')
    while 0 <= i < len(g):
        e = data.find(b'\r\n', i)
        if e < 0:
            return False
        text = data[i + 1:e]
        if len(text) >= 2 and len(text) % 2 == 0 and all(c in HEX for c in text):
            if ADU._ascii_frame(REQ, data, i, e + 2) is None:
                return True
            i = data.find(b':', e)          # a valid frame: the framer moves on
        else:
            return False                    # the framer raises: the handler resets its buffer
    return False


BC_POS = {REQ: {15: 6, 16: 6, 20: 2, 21: 2, 23: 10}, RSP: {1: 2, 2: 2, 3: 2, 4: 2, 12: 2, 17: 2, 20: 2, 21: 2, 23: 2, 24: 3, 43: 7}}


def incomplete_rtu_header(d, g):
    """the garbage starts like an RTU frame whose length field has not arrived yet"""
    if len(g) < 2:
        return False
    try:
        return S.pdu_len(d, g[1:]) is None            # the frame's own length fields have not all arrived
    except S.SpecError:
        return False


def mei_rtu_size(data):
    """the frame size the RTU framer derives for a function-code 0x2B response: object count at offset 7, then (id, length,
    value) triples - None when the bytes present do not reach the end of that walk"""
    if len(data) < 8:
        return None
    size, count = 8, data[7]
    while count > 0:
        if len(data) < size + 2:
            return None
        size += data[size + 1] + 2
        count -= 1
    return size + 2


def regions(framing, g, per_read, joined, d=REQ, warm=0, first_read_tail=None, stream=b''):
    out = set()
    if framing == 'rtu' and d == RSP and len(g) >= 2 and g[1] == 0x2B and warm >= 1:
        n = mei_rtu_size(stream)
        if n is None or n > BOUND['rtu']:
            out.add('rtu-mei-response-size-unbounded')
    # (a garbage of two or three bytes is completed to the four header bytes by the traffic that follows it)
    h4 = g[:4] if len(g) >= 4 else (g + stream[len(g):])[:4] if stream[:len(g)] == g else g
    if framing == 'rtu' and d == RSP and len(g) >= 2 and len(h4) >= 4 and h4[1] == 0x18 and (h4[2] << 16) + h4[3] + 6 > BOUND['rtu']:
        out.add('rtu-fifo-response-size-unbounded')
    if framing == 'ascii' and ascii_stray_colon(g):
        out.add('ascii-stray-colon')
    if framing == 'binary' and (b'{}' in g or g.endswith(b'{')):
        out.add('binary-short-span-raises-every-call')
    if framing == 'rtu' and (per_read > 1):
        out.add('rtu-one-frame-per-call')
    if framing == 'binary' and per_read > 1:
        out.add('binary-pipelined-frame-skipped')
    return out


def check(run, case):
    framing, d, g, per_read, joined, big, nfr, seed = (case['framing'], case['dir'], case['garbage'], case['per_read'],
                                                       case['joined'], case['big'], case['nframes'], case['fseed'])
    import random
    frames = valid_frames(framing, d, nfr, random.Random(seed), big)
    reads = []
    if joined:
        first = g + b''.join(f for _, f in frames[:per_read])
        reads.append(first)
        rest = frames[per_read:]
    else:
        reads.append(g)
        rest = frames
    for i in range(0, len(rest), per_read):
        reads.append(b''.join(f for _, f in rest[i:i + per_read]))
    # offset (in bytes of valid traffic after the garbage) at which each frame starts
    starts, pos = [], 0
    for _, f in frames:
        starts.append(pos)
        pos += len(f)
    cutoff = next((i for i, s in enumerate(starts) if s >= BOUND[framing]), None)
    if cutoff is None:
        run.count('skipped_no_frame_after_bound')
        return None
    fr = new_framer(framing, d)
    got, excs = [], []
    # a receiver that has already handled traffic is in a different internal state than a fresh one
    for m, f in valid_frames(framing, d, case.get('warm', 0), random.Random(seed + 1), False):
        try:
            fr.processIncomingPacket(f, (lambda o: None), [UNIT], single=False)
        except Exception:  # noqa
            pass
    maxread = max(len(x) for x in reads)
    backlog_bad = None
    for ri, chunk in enumerate(reads):
        try:
            fr.processIncomingPacket(chunk, got.append, [UNIT], single=False)
        except Exception as e:  # noqa
            excs.append(type(e).__name__)
        bl = len(fr._buffer)
        if bl > BOUND[framing] + maxread and backlog_bad is None:
            backlog_bad = (ri, bl)
    run.count('scenarios:%s' % framing)
    run.count('reads', len(reads))
    run.count('deliveries', len(got))
    run.count('exceptions_escaped', len(excs))
    keys = [dkey(framing, o) for o in got]
    want = [mkey(framing, d, m) for m, _ in frames[cutoff:]]
    wantset = set(want)
    tail = [k for k in keys if k in wantset]
    regs = regions(framing, g, per_read, joined, d, case.get('warm', 0), reads[0][len(g):] if joined else None, b''.join(reads))
    for slug in regs:
        if slug == 'ascii-stray-colon':
            run.region('ascii-bad-lrc-blocks-forever')
            run.region('ascii-nonhex-raises')
        else:
            run.region(slug)
    if not regs:
        run.count('clean_region_cases')
    kinds = set()
    if tail != want:
        if len(set(tail)) < len(tail):
            kinds.add('duplicate-delivery')
        elif [k for k in want if k in set(tail)] == tail:
            kinds.add('not-delivered-after-bound')
        else:
            kinds.add('out-of-order')
    if backlog_bad:
        kinds.add('backlog-unbounded')
    if not kinds:
        return True
    detail = ('%s/%s garbage %s (%d bytes), %d frames %d per read%s: %d of %d frames after the %d-byte bound delivered, backlog %r, exceptions %r'
              % (framing, d, g.hex()[:60], len(g), nfr, per_read, ' joined' if joined else '', len(tail), len(want), BOUND[framing], backlog_bad,
                 sorted(set(excs))))
    excused = set()
    if 'ascii-stray-colon' in regs:
        exn = set(excs)
        if exn & {'ValueError', 'Error'}:
            run.known('ascii-nonhex-raises', "a ':' span with non-hex/odd content makes the ASCII framer raise on every later call and deliver nothing", case)
        else:
            run.known('ascii-bad-lrc-blocks-forever', "a ':' span with a bad LRC is kept forever and blocks every later frame", case)
        excused |= {'not-delivered-after-bound', 'backlog-unbounded'}
    if 'binary-short-span-raises-every-call' in regs and 'error' in set(excs):
        run.known('binary-short-span-raises-every-call', "'{}' at the head of the buffer makes the binary framer raise struct.error on every later call", case)
        excused |= {'not-delivered-after-bound', 'backlog-unbounded'}
    if 'rtu-mei-response-size-unbounded' in regs and not excs:
        run.known('rtu-mei-response-size-unbounded', 'a header with function code 0x2B whose object walk runs past 256 bytes makes the RTU client receiver wait for all of it: later frames pile up undelivered', case)
        excused |= {'not-delivered-after-bound', 'backlog-unbounded'}
    if 'rtu-fifo-response-size-unbounded' in regs and not excs:
        run.known('rtu-fifo-response-size-unbounded', 'a header with function code 0x18 makes the RTU client receiver wait for up to 16 MB: later frames pile up undelivered', case)
        excused |= {'not-delivered-after-bound', 'backlog-unbounded'}
    if 'rtu-one-frame-per-call' in regs and kinds & {'not-delivered-after-bound', 'backlog-unbounded'}:
        run.known('rtu-one-frame-per-call', 'RTU framer handles one frame per receive call: with k frames per read the backlog grows without bound', case)
        excused |= {'not-delivered-after-bound', 'backlog-unbounded'}
    if 'binary-pipelined-frame-skipped' in regs and 'not-delivered-after-bound' in kinds:
        run.known('binary-pipelined-frame-skipped', 'binary framer skips every second back-to-back frame', case)
        excused |= {'not-delivered-after-bound'}
    left = kinds - excused
    if left:
        run.violation('%s:%s:%s' % (framing, '+'.join(sorted(left)), 'clean' if not regs else 'in-' + '+'.join(sorted(regs))), case, detail)
    return False


def handler_level(run, r):
    """the same bounded-progress demand one level up, for the endpoints that keep ONE receiver for everything they are sent
    (asyncio and Twisted datagram protocols, serial-style handler): garbage in a datagram / read of its own, then unique valid
    read requests one per datagram; every request starting beyond the bound must be answered with its own register value"""
    from .. import frontends as FE
    from .. import repo
    from pymodbus.datastore import ModbusSequentialDataBlock, ModbusSlaveContext, ModbusServerContext
    n = run.scale(10, 400)
    for front in ('aio-udp', 'tw-udp', 'sync-serial'):
        for framing in FRAMINGS:
            for i in range(n):
                cls = CLASSES[i % len(CLASSES)]
                g = garbage(r, framing, REQ, cls)
                small_len = {'rtu': 8, 'ascii': 17, 'binary': 9}[framing]
                nreq = BOUND[framing] // small_len + 40        # (enough of them beyond the bound also after the delimiter-free filter and the lead-in bursts)
                reqs, frames = [], []
                for k in range(nreq):
                    a = 100 + k
                    f = ADU.build(framing, UNIT, S.encode({'dir': REQ, 'fc': 3, 'address': a, 'count': 1}))
                    if framing == 'binary' and any(b in (0x7B, 0x7D) for b in f[1:-1] + ADU.build('binary', UNIT, S.encode({'dir': RSP, 'fc': 3, 'registers': [a + 7]}))[1:-1]):
                        continue
                    reqs.append(a)
                    frames.append(f)
                block = ModbusSequentialDataBlock(0, [(x + 7) & 0xFFFF for x in range(2000)])
                ctx = ModbusServerContext(slaves=ModbusSlaveContext(hr=block, zero_mode=True), single=True)
                repo.reset_globals()
                # one burst of noise - or half a dozen, each followed by a request (an endpoint must not count its way to giving up)
                raiser = {'ascii': [b':0G03\r\n', b':01\r\n', b':zz\r\n'], 'binary': [b'{}', b'{\x01}'], 'rtu': [bytes([UNIT, 0x2B, 0x0E]), bytes([UNIT, 0x18, 0xFF])]}[framing]
                bursts = [g]
                if i % 3 == 2:
                    # only bursts that make the framer raise (the handlers reset on those; a quiet bad-LRC span would be the recorded finding)
                    bursts = [r.choice(raiser) for _ in range(r.choice([6, 8, 10]))]
                    g = bursts[-1]
                feed, nlead = [], 0
                for j, gb in enumerate(bursts[:-1]):
                    feed += [gb, frames[j]]
                nlead = len(bursts) - 1
                feed += [bursts[-1]] + frames[nlead:]
                res = FE.feed(front, framing, ctx, feed)
                run.count('handler_level_runs:%s' % front)
                if nlead:
                    run.count('handler_level_multi_burst_runs')
                g_all = b''.join(bursts)
                # requests starting beyond the bound after the last burst
                pos, want, got = 0, [], []
                for k, f in enumerate(frames[nlead:]):
                    if pos >= BOUND[framing]:
                        want.append(ADU.build(framing, UNIT, S.encode({'dir': RSP, 'fc': 3, 'registers': [reqs[nlead + k] + 7]})))
                        idx = 2 * nlead + 1 + k
                        got.append(res.per_read[idx] if idx < len(res.per_read) else b'')
                    pos += len(f)
                regs = set()
                for gb in bursts:
                    regs |= regions(framing, gb, 1, False, REQ, 0, None, gb + b''.join(frames))
                ok = want == got
                case = {'handler': front, 'framing': framing, 'garbage': g, 'class': cls, 'bursts': len(bursts)}
                run.case(h64(('handler', front, framing, g)), True,
                         sample={'level': 'handler', 'front': front, 'framing': framing, 'class': cls, 'garbage': g.hex()[:60], 'requests_beyond_bound': len(want),
                                 'verdict': 'all answered' if ok else 'not all answered'}, sample_class=('handler', front, framing))
                if ok or res.stalled:
                    continue
                for slug in regs:
                    run.region('ascii-bad-lrc-blocks-forever' if slug == 'ascii-stray-colon' else slug)
                missing = sum(1 for w, x in zip(want, got) if w != x)
                quiet = framing == 'ascii' and any(ascii_quiet_span(gb, b''.join(frames[:4])) for gb in bursts)
                if 'ascii-stray-colon' in regs and quiet:
                    run.known('ascii-bad-lrc-blocks-forever', "a ':' span with a bad LRC is kept forever and blocks every later frame", case)
                    continue
                run.violation('handler:%s/%s:not-answered-after-bound' % (front, framing), case,
                              '%s/%s: after garbage %s (%s) %d of %d requests beyond the %d-byte bound were not answered with their own reply; exceptions %r'
                              % (front, framing, g.hex()[:60], cls, missing, len(want), BOUND[framing], [type(e).__name__ for e in res.escaped][:3]))


def stream_idle_reset(run, r):
    """threaded TCP handler carrying a serial framing (serial-over-TCP gateways): noise or an abandoned partial frame, then an idle
    period longer than the receive timeout (the handler resets its framer), then valid requests - whole or (ASCII) each in two or
    three segments: every one of them must be answered.  Noise that makes the framer raise closes the connection (a stream
    front-end's answer to a protocol error, C12): those runs are counted, not judged."""
    import socket
    from .. import frontends as FE
    from .. import repo
    from pymodbus.datastore import ModbusSequentialDataBlock, ModbusSlaveContext, ModbusServerContext
    n = run.scale(27, 900)
    for framing in FRAMINGS:
        for i in range(n):
            cls = CLASSES[i % len(CLASSES)]
            g = garbage(r, framing, REQ, cls)[:1024]
            reqs, frames = [], []
            for k in range(12):
                a = 100 + k
                f = ADU.build(framing, UNIT, S.encode({'dir': REQ, 'fc': 3, 'address': a, 'count': 1}))
                if framing == 'binary' and any(b in (0x7B, 0x7D) for b in f[1:-1] + ADU.build('binary', UNIT, S.encode({'dir': RSP, 'fc': 3, 'registers': [a + 7]}))[1:-1]):
                    continue
                reqs.append(a)
                frames.append(f)
            chop = framing == 'ascii' and i % 2 == 0
            feed = [g, socket.timeout('timed out')]
            second = r.randrange(2, len(frames) - 2)          # a second idle period further on
            for k, f in enumerate(frames):
                if k == second:
                    feed.append(socket.timeout('timed out'))
                if chop:
                    cuts = sorted(set(r.randrange(1, len(f)) for _ in range(r.randint(1, 2))))
                    feed.extend(f[a:b] for a, b in zip([0] + cuts, cuts + [len(f)]))
                else:
                    feed.append(f)
            _stream_idle_one(run, framing, g, cls, chop, [x if isinstance(x, bytes) else None for x in feed], len(frames), reqs)


def _stream_idle_one(run, framing, g, cls, chop, items, nframes, reqs):
    import socket
    from .. import frontends as FE
    from .. import repo
    from pymodbus.datastore import ModbusSequentialDataBlock, ModbusSlaveContext, ModbusServerContext
    if True:
        if True:
            block = ModbusSequentialDataBlock(0, [(x + 7) & 0xFFFF for x in range(2000)])
            ctx = ModbusServerContext(slaves=ModbusSlaveContext(hr=block, zero_mode=True), single=True)
            repo.reset_globals()
            feed = [x if x is not None else socket.timeout('timed out') for x in items]
            idle = next(x for x in feed if not isinstance(x, bytes))
            nbytes_items = sum(1 for x in feed if isinstance(x, bytes))
            res = FE.feed('sync-tcp', framing, ctx, feed)
            run.count('stream_idle_runs')
            if res.stalled:
                return
            want = b''.join(ADU.build(framing, UNIT, S.encode({'dir': RSP, 'fc': 3, 'registers': [a + 7]})) for a in reqs)
            judged = idle.__traceback__ is not None            # the handler survived the noise and met the idle period (the exception was raised)
            if not judged:
                run.count('stream_idle_closed_on_noise')       # the noise made the framer raise: connection closed before the idle period
            ok = (not judged) or res.out.endswith(want)
            case = {'handler': 'sync-tcp', 'framing': framing, 'garbage': g, 'class': cls, 'bursts': 1, 'idle': True, 'chopped': chop, 'items': items, 'nframes': nframes, 'reqs': reqs}
            run.case(h64(('stream-idle', framing, g, chop)), True,
                     sample={'level': 'handler', 'front': 'sync-tcp', 'framing': framing, 'class': cls, 'garbage': g.hex()[:60], 'idle_timeouts': 2, 'requests_in_segments': chop,
                             'verdict': 'closed on the noise' if not judged else ('all answered' if ok else 'not all answered')}, sample_class=('stream-idle', framing, chop))
            if judged:
                run.count('stream_idle_judged')
            if ok:
                return
            run.violation('handler:sync-tcp/%s:not-answered-after-idle-reset' % framing, case,
                          'sync-tcp/%s: garbage %s (%s), idle timeout, then %d requests%s: output does not end with their %d replies (fed %d of %d reads, closed=%r, exceptions %r, output %s)'
                          % (framing, g.hex()[:60], cls, nframes, ' in segments' if chop else '', len(reqs), res.fed, nbytes_items, res.closed,
                             [type(e).__name__ for e in res.escaped][:3], res.out.hex()[-80:]))


def run(run):
    r = run.rng('main')
    run.rule = ('case = (framing, direction, garbage prefix of a class, N unique valid frames, frames per read, garbage in its own read or joined to the first frame); '
                'oracle: all frames starting >= 2 x max-frame bytes after the garbage delivered exactly once in order, backlog bounded at every call; '
                'distinct = (framing, direction, garbage bytes, per-read, joined); all non-trivial (every case has garbage and frames beyond the bound)')
    run.assumptions = ['bounded-progress restatement of the liveness clause (2 x max frame = 512 bytes RTU/binary, 1030 ASCII)', 'reference ADU builder']
    n = run.scale(640, 100000)
    for framing in FRAMINGS:
        for d in (REQ, RSP):
            for i in range(n):
                cls = CLASSES[i % len(CLASSES)]
                g = garbage(r, framing, d, cls)
                per_read = 1 if i % 3 else r.choice([2, 3])
                big = (i % 2 == 0)
                small_len = {'rtu': 8, 'ascii': 17, 'binary': 9}[framing]
                nfr = 24 if big else (BOUND[framing] // small_len + 30)
                case = {'framing': framing, 'dir': d, 'garbage': g, 'class': cls, 'per_read': per_read, 'joined': bool(i % 4 == 1), 'big': big,
                        'nframes': nfr, 'fseed': r.randrange(1 << 30), 'warm': (i // 8) % 3}
                if cls == 'unknown-function' and framing != 'ascii':
                    case['joined'] = False        # (a frame joined to another frame in one read is the one-frame-per-call / skipped-frame matter)
                res = check(run, case)
                if res is None:
                    continue
                run.count('class:%s' % cls)
                run.case(h64((framing, d, g, per_read, case['joined'], big, case['warm'])), True,
                         sample={k: (v.hex() if isinstance(v, bytes) else v) for k, v in case.items()} | {'verdict': 'recovers' if res else 'does not recover'},
                         sample_class=(framing, cls, res))
    # exhaustive: every single-bit flip and every truncation of one frame as the garbage
    for framing in FRAMINGS:
        good = ADU.build(framing, UNIT, S.encode({'dir': REQ, 'fc': 3, 'address': 7, 'count': 2}))
        idx = 0
        for i in range(8 * len(good)):
            idx += 1
            if not run.mine(idx) or (not run.thorough and i % 3):
                continue
            b = bytearray(good)
            b[i // 8] ^= 1 << (i % 8)
            case = {'framing': framing, 'dir': REQ, 'garbage': bytes(b), 'class': 'flip-%d' % i, 'per_read': 1, 'joined': False, 'big': True, 'nframes': 24, 'fseed': i, 'warm': i % 2}
            res = check(run, case)
            run.case(h64((framing, 'flip', i)), True, sample=None)
        for k in range(1, len(good)):
            for warm in (0, 1):
                case = {'framing': framing, 'dir': REQ, 'garbage': good[:k], 'class': 'trunc-%d' % k, 'per_read': 1, 'joined': False, 'big': True, 'nframes': 24, 'fseed': k, 'warm': warm}
                res = check(run, case)
                run.case(h64((framing, 'trunc', k, warm)), True, sample=None)
            continue
            res = check(run, case)
            run.case(h64((framing, 'trunc', k)), True, sample=None)
    # exhaustive: a header announcing every possible byte count, then silence from that sender (abandoned partial frame)
    for framing in FRAMINGS:
        for d in (REQ, RSP):
            for bc in range(256):
                if not run.thorough and 8 < bc < 0xF0 and bc % 16:
                    continue
                if framing == 'rtu':
                    g = bytes([UNIT, 0x10, 0, 1, 0, min(bc // 2, 123), bc]) if d == REQ else bytes([UNIT, 0x03, bc])
                elif framing == 'ascii':
                    g = b':' + (bytes([UNIT, 0x10, 0, 1, 0, 1, bc]) if d == REQ else bytes([UNIT, 3, bc])).hex().upper().encode()
                else:
                    g = b'{' + (bytes([UNIT, 0x10, 0, 1, 0, 1, bc]) if d == REQ else bytes([UNIT, 3, bc]))
                    if any(x in (0x7B, 0x7D) for x in g[1:]):
                        continue
                case = {'framing': framing, 'dir': d, 'garbage': g, 'class': 'bytecount-%d' % bc, 'per_read': 1, 'joined': False, 'big': bool(bc % 2), 'nframes': 24 if bc % 2 else 110, 'fseed': bc,
                        'warm': (bc // 2) % 2}
                res = check(run, case)
                if res is not None:
                    run.case(h64((framing, d, 'bc', bc)), True, sample=None)
    if run.shard in (None, 0):
        handler_level(run, r)
        stream_idle_reset(run, r)
        run.floor('stream handler runs judged after an idle reset', run.counters.get('stream_idle_judged', 0), 30)
        run.floor('handler-level runs', sum(v for k, v in run.counters.items() if k.startswith('handler_level_runs:')), 60)
    run.floor('scenarios per framing (min)', min(run.counters.get('scenarios:%s' % f, 0) for f in FRAMINGS), 150 if run.shard is None else 10)
    run.floor('clean-region scenarios', run.counters.get('clean_region_cases', 0), 200 if run.shard is None else 10)
    run.floor('deliveries observed', run.counters.get('deliveries', 0), 5000 if run.shard is None else 300)


def replay(run, case):
    if case.get('idle'):
        _stream_idle_one(run, case['framing'], case['garbage'], case['class'], case['chopped'], case['items'], case['nframes'], case['reqs'])
        run.evaluations += 1
        return
    if case.get('handler'):
        print('note: handler-level cases are regenerated by the tier (seeded); the framer-level replay of the same garbage follows')
        case = {'framing': case['framing'], 'dir': REQ, 'garbage': case['garbage'], 'class': case['class'], 'per_read': 1, 'joined': False, 'big': True, 'nframes': 24, 'fseed': 1, 'warm': 1}
    res = check(run, case)
    print({True: 'recovers', False: 'does not recover', None: 'no frame beyond the bound'}[res])
    run.evaluations += 1
