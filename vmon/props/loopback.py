"""Real-socket segments of the thorough tiers (used by C09 and C12): the real sync / asyncio servers in
threads and the real Twisted reactor in a child process, talked to over loopback."""
import time

from .. import frontends as FE
from .. import realnet as RN
from .. import repo
from .. import serverhist as SH
from .. import servermodel as SM
from ..core import h64
from ..spec import adu as ADU
from ..spec import pdu as S
from ..spec.pdu import REQ, RSP

FRONT_OF = {'sync-tcp': 'sync', 'aio-tcp': 'aio', 'tw-tcp': 'tw'}


def start(front, framing, layout, flags):
    """-> (server handle, blocks or None)"""
    if front in ('tw-tcp', 'tw-udp'):
        return RN.TwistedServer(framing, layout, ignore_missing_slaves=flags.get('ignore_missing_slaves', False),
                                kind='udp' if front == 'tw-udp' else 'tcp'), None
    ctx, model, blocks = SM.build(layout)
    if front == 'sync-tcp':
        return RN.SyncServer('tcp', framing, ctx, **flags), blocks
    if front == 'aio-tcp':
        return RN.AioServer(framing, ctx, **flags), blocks
    if front == 'sync-udp':
        return RN.SyncServer('udp', framing, ctx, **flags), blocks
    raise ValueError(front)


def histories(run, r, uniq, n_per_front):
    """C09 over real sockets: clean-region histories must produce, byte for byte, what the in-process driver produces
    (which the trace checker has judged against the model)"""
    for front in ('sync-tcp', 'aio-tcp', 'tw-tcp'):
        for i in range(n_per_front if front != 'tw-tcp' else max(4, n_per_front // 8)):
            framing = 'tcp' if i % 3 else 'ascii'
            case = SH.gen_case(r, front, framing, uniq, max_per_read=3)
            if front == 'tw-tcp':
                case['flags']['broadcast_enable'] = False
            if SH.regions(case):
                continue
            ex = SH.execute(case)                       # in-process reference run (fresh context)
            want = ex['res'].out
            problems, _ = SH.match(framing, ex['exp'], ex['out_frames'])
            if problems or ex['parse_error']:
                continue                                # judged (and reported) by the in-process part of the check
            repo.reset_globals()
            try:
                srv, blocks = start(front, framing, case['layout'], case['flags'] if front != 'tw-tcp' else {k: v for k, v in case['flags'].items() if k == 'ignore_missing_slaves'})
            except Exception as e:  # noqa
                run.watchdogs += 1
                run.observed['loopback_start_error'] = repr(e)[:200]
                continue
            try:
                got, closed, timed_out = RN.tcp_exchange(srv.port, ex['reads'], expect_len=len(want))
                if timed_out and got != want:
                    # slow machine or lost answer? ask once more on a fresh connection with a probe that does not change state
                    time.sleep(0.3)
                dump = SM.norm_dump(SM.dump(blocks, case['layout']['zero_mode'])) if blocks else None
            finally:
                srv.stop()
            run.count('loopback_histories:%s' % front)
            run.count('loopback_bytes', len(got))
            ok = got == want
            if ok and dump is not None and dump != ex['model'].dump():
                ok = False
            run.case(h64(('loopback', front, repr(case))), True,
                     sample={'kind': 'real sockets', 'front': front, 'framing': framing, 'requests': sum(len(x) for x in case['reads']), 'response_bytes': len(got),
                             'verdict': 'identical to the in-process run' if ok else 'differs'}, sample_class=('loopback', front))
            if not ok:
                if timed_out:
                    run.watchdogs += 1
                    run.count('loopback_timeouts')
                    continue
                run.violation('loopback:%s/%s' % (front, framing), dict(case, loopback=True),
                              'over real sockets %s wrote %s, the in-process driver (and the model) %s%s' % (front, got.hex()[:120], want.hex()[:120],
                                                                                                       '; final store differs' if got == want else ''))


def datagram_histories(run, r, uniq, n_per_front, fronts=('sync-udp', 'tw-udp'), big=False):
    """C09 / C17 over real UDP sockets (sync server thread, Twisted reactor child): every datagram must be answered with exactly
    the datagram(s) the in-process driver produced for it.  big: datagrams longer than one serial ADU (an ASCII-framed write of
    many registers, many pipelined MBAP requests in one datagram) - what a receive buffer sized for one ADU would cut"""
    for front in fronts:
        for i in range(n_per_front if front != 'tw-udp' else max(2, n_per_front // 4)):
            framing = 'tcp'
            if big:
                framing = ('ascii', 'tcp')[i % 2]
                case = SH.gen_case(r, front, framing, uniq, data_only=True, max_per_read=(1 if framing == 'ascii' else 40), nreq=(3 if framing == 'ascii' else 40), allow_foreign=False)
                if framing == 'ascii':
                    u = int(sorted(case['layout']['units'])[0])
                    uniq[0] += 200
                    case['reads'].insert(1, [[u, 4242, {'dir': REQ, 'fc': 16, 'address': 1, 'registers': [(uniq[0] + j) & 0xFFFF for j in range(61 + i % 60)]}]])
                else:
                    case['reads'] = [[fr for rd in case['reads'] for fr in rd]]            # everything in one datagram
                    for k, fr in enumerate(case['reads'][0]):
                        fr[1] = 100 + k
            else:
                case = SH.gen_case(r, front, 'tcp', uniq, max_per_read=1)
            if front == 'tw-udp':
                case['flags']['broadcast_enable'] = False
            if SH.regions(case):
                continue
            ex = SH.execute(case)
            problems, _ = SH.match(framing, ex['exp'], ex['out_frames'])
            if problems or ex['parse_error']:
                continue                                # judged (and reported) by the in-process part of the check
            want = [b for b in ex['res'].per_read]      # bytes written in reaction to each datagram
            repo.reset_globals()
            try:
                srv, blocks = start(front, framing, case['layout'], case['flags'] if front != 'tw-udp' else {k: v for k, v in case['flags'].items() if k == 'ignore_missing_slaves'})
            except Exception as e:  # noqa
                run.watchdogs += 1
                run.observed['loopback_start_error'] = repr(e)[:200]
                continue
            try:
                nexp = [len(ADU.parse_stream(framing, RSP, w)[0]) if w else 0 for w in want]      # one answer datagram per request
                got = RN.udp_exchange(srv.port, ex['reads'], expect=nexp, wait=2.0)
                time.sleep(0.02)
                dump = SM.norm_dump(SM.dump(blocks, case['layout']['zero_mode'])) if blocks else None
            finally:
                srv.stop()
            per = [b''.join(d for j, d in got if j == k) for k in range(len(want))]
            run.count('loopback_histories:%s' % front)
            run.count('loopback_datagrams', len(got))
            ok = per == want and (dump is None or dump == ex['model'].dump())
            late = (not ok) and any(w and not p for w, p in zip(want, per)) and all((p == w or not p) for w, p in zip(want, per))
            if late:
                # an answer that is merely slow delays everything behind it (the exchange waits for it); if a LATER datagram was
                # answered the server had moved on: the missing answer was never sent
                miss = [k for k, (w, p) in enumerate(zip(want, per)) if w and not p]
                if any(per[j] for j in range(miss[0] + 1, len(per))):
                    late = False
            run.case(h64(('loopback-dgram', front, repr(case))), True,
                     sample={'kind': 'real UDP sockets', 'front': front, 'requests': len(want), 'answers': len(got),
                             'verdict': 'identical to the in-process run' if ok else 'differs'}, sample_class=('loopback-dgram', front))
            if not ok:
                if late and dump in (None, ex['model'].dump()):
                    run.watchdogs += 1                  # an answer did not arrive within the wall-clock wait: not a verdict
                    run.count('loopback_timeouts')
                    continue
                k = next((k for k in range(len(want)) if per[k] != want[k]), None)
                run.violation('loopback-dgram:%s' % front, dict(case, loopback='dgram'),
                              'over real UDP sockets %s answered datagram %s with %s, the in-process driver (and the model) with %s%s'
                              % (front, k, per[k].hex()[:80] if k is not None else '-', want[k].hex()[:80] if k is not None else '-', '; final store differs' if k is None else ''))


def udp_hostile(run, r, n, gen_layout, probe_reads):
    """C12 behind a real UDP socket (the real threaded sync UDP server, serve_forever in a thread; multi-unit context so that the
    unit filter is on): runts, junk and truncated frames as datagrams, then a probe - the serving loop must still be there"""
    for i in range(n):
        layout = gen_layout(r)
        layout['single'] = bool(i % 2)
        repo.reset_globals()
        try:
            srv, blocks = start('sync-udp', 'tcp', layout, {})
        except Exception as e:  # noqa
            run.watchdogs += 1
            run.observed['loopback_start_error'] = repr(e)[:200]
            continue
        addr, probes = probe_reads('tcp', layout, 1)
        probe = probes[0][1]
        junk = [bytes(r.randrange(256) for _ in range(k)) for k in (1, 2, 3, 5, 6, 7)] + [probe[:4], probe[:9], b'', bytes(r.randrange(256) for _ in range(r.randint(8, 300)))]
        r.shuffle(junk)
        try:
            RN.udp_exchange(srv.port, junk, expect=[0] * len(junk), wait=0.3)
            got = []
            for attempt in range(3):
                got = RN.udp_exchange(srv.port, [probe], expect=[1], wait=1.5)
                if got:
                    break
            alive = srv.th.is_alive()
        finally:
            srv.stop()
        run.count('loopback_udp_hostile')
        ok = bool(got) and got[0][1][:2] == probe[:2]
        run.case(h64(('loopback-udp-hostile', repr(junk))), True,
                 sample={'kind': 'real UDP socket, hostile datagrams', 'front': 'sync-udp', 'datagrams': [j.hex()[:24] for j in junk][:6],
                         'verdict': 'probe answered' if ok else 'probe not answered'}, sample_class=('loopback-udp-hostile',))
        if not ok:
            if alive:
                run.watchdogs += 1                      # the serving thread is there; the answer may just be late
                continue
            run.violation('loopback-udp-hostile:sync-udp', {'front': 'sync-udp', 'framing': 'tcp', 'layout': layout, 'reads': junk + [probe], 'class': 'udp-runts', 'loopback': True},
                          'after the datagrams %r the serving thread of the real UDP server has ended and a probe is not answered' % ([j.hex()[:16] for j in junk],))


def hostile(run, r, uniq, n_per_front, gen_layout, hostile_stream, split, classes, unjustified_changes, probe_reads):
    """C12 over real sockets: hostile bytes on one connection, then a probe on a fresh connection; the serving
    thread / loop / reactor must still be alive and answer from the actual store"""
    for front in ('sync-tcp', 'aio-tcp', 'tw-tcp'):
        for i in range(n_per_front if front != 'tw-tcp' else max(4, n_per_front // 8)):
            framing = ('tcp', 'ascii', 'rtu')[i % 3]
            layout = gen_layout(r)
            cls = classes[i % len(classes)]
            data, frames = hostile_stream(r, framing, layout, uniq, cls)
            reads = split(r, data, False)
            repo.reset_globals()
            try:
                srv, blocks = start(front, framing, layout, {})
            except Exception as e:  # noqa
                run.watchdogs += 1
                continue
            try:
                before = SM.norm_dump(SM.dump(blocks, layout['zero_mode'])) if blocks else None
                RN.tcp_exchange(srv.port, reads, expect_len=None, idle=0.15, total=3.0)
                # a second hostile connection that is simply dropped mid-frame
                RN.tcp_exchange(srv.port, [data[:max(1, len(data) // 2)]], expect_len=None, idle=0.05, total=0.5)
                addr, probes = probe_reads(framing, layout, 1)
                answered, out = False, b''
                for attempt in range(3):
                    time.sleep(0.05 * attempt)
                    now = SM.norm_dump(SM.dump(blocks, layout['zero_mode'])) if blocks else None
                    out, closed, _ = RN.tcp_exchange(srv.port, [probes[0][1]], expect_len=None, idle=0.3, total=3.0)
                    fs, pos, err = ADU.parse_stream(framing, RSP, out)
                    if err is None and len(fs) == 1 and fs[0].pdu[0] in (3, 0x83):
                        if blocks is None:
                            answered = True
                        else:
                            val = now[1]['h'].get(addr)
                            want = S.encode({'dir': RSP, 'fc': 3, 'registers': [val]}) if val is not None else bytes([0x83, 2])
                            answered = bytes(fs[0].pdu) == want
                        if answered:
                            break
                after = SM.norm_dump(SM.dump(blocks, layout['zero_mode'])) if blocks else None
            finally:
                srv.stop()
            run.count('loopback_hostile:%s' % front)
            ok = answered
            why = None
            if not answered:
                why = 'after hostile bytes over real sockets a probe on a fresh connection was not answered correctly (got %s)' % out.hex()[:60]
            elif blocks is not None and after != before:
                bad = unjustified_changes(framing, [data, data[:max(1, len(data) // 2)]], before, after, 1, layout=layout)
                if bad and framing != 'tcp' and unjustified_changes(framing, [data], before, after, 1, loose=True, layout=layout):
                    why = 'store changed without a justifying request: %r' % (bad[:3],)
                elif bad and framing == 'tcp' and ADU.parse_stream('tcp', REQ, data)[2] is None:
                    why = 'store changed without a justifying request: %r' % (bad[:3],)
            run.case(h64(('loopback-hostile', front, framing, data)), True,
                     sample={'kind': 'real sockets, hostile', 'front': front, 'framing': framing, 'class': cls, 'bytes': len(data),
                             'verdict': 'server alive, probe answered' if not why else 'differs'}, sample_class=('loopback-hostile', front))
            if why:
                run.violation('loopback-hostile:%s/%s' % (front, framing), {'front': front, 'framing': framing, 'layout': layout, 'reads': reads, 'class': cls, 'loopback': True}, why)
