"""C15 - concurrent callers of one synchronous client are serialised.

Real threads call the real client; every transport operation of the OS doubles is a yield
point of a deterministic scheduler that enumerates (small configurations) or samples the
interleavings.  The monitor checks, over the transport trace with thread names: whole frames
on the wire, no transport operation of another thread between a thread's send and the return
of its call, every caller gets the reply to its own (unique) request, no deadlock."""
import sys
import threading
import time as _time

from .. import repo
from ..core import h64
from ..doubles import clientio as IO
from ..doubles import peers as P
from ..doubles.sched import Sched, SchedLock, explore, wrap_locks
from ..spec import adu as ADU
from ..spec.pdu import REQ

LEVEL = 'exploration'
SHARDS = {'thorough': 8}
ANCHORS = ['pymodbus/transaction.py', 'pymodbus/client/sync.py']


class LatencyPeer(P.ScriptedPeer):
    """conformant server whose replies have different lengths and arrive in one or two pieces with different latencies;
    with foreign_first=True the first attempt of some requests is answered by a frame of another unit (provokes a retry)"""
    foreign_first = False

    silent_unit0 = False
    drop_first = False

    def answer(self, conn, f):
        if self.drop_first and f.msg.get('address', 1) % 4 == 0:
            dropped = self.__dict__.setdefault('dropped', set())
            if f.msg['address'] not in dropped:
                dropped.add(f.msg['address'])
                self.i += 1
                self.events.append((self.i - 1, 'none', f.key(), b''))
                return                               # the reply to this request is lost: the caller times out
        if self.silent_unit0 and not f.unit:
            self.i += 1
            self.events.append((self.i - 1, 'none', f.key(), b''))
            return                                   # nobody answers a broadcast
        if getattr(self, 'bogus_address', None) is not None and f.msg.get('address') == self.bogus_address:
            # a complete, well-framed reply the client cannot decode (a function code it does not know)
            self.i += 1
            self.events.append((self.i - 1, 'bogus', f.key(), b''))
            conn.deliver(ADU.build(self.framing, f.unit or 0, bytes([0x63, 0x01]), tid=f.tid or 0))
            return
        own = self.own_reply(f)
        self.i += 1
        self.events.append((self.i - 1, 'own', f.key(), own))
        a = f.msg.get('address', 0)
        if self.foreign_first and a % 2 == 0:
            seen = self.__dict__.setdefault('seen', set())
            if a not in seen:
                seen.add(a)
                conn.deliver(ADU.build(self.framing, (f.unit or 0) ^ 0x40, own[7:] if self.framing == 'tcp' else own[1:-2], tid=f.tid or 0))
                return
        if a % 3 == 0:
            conn.deliver(own)
        elif a % 3 == 1:
            conn.deliver(own, delay=0.05)
        else:
            conn.deliver(own[:3], delay=0.01)
            conn.deliver(own[3:], delay=0.2)


def expected_registers(addr, count):
    t = P.LazyTable('h')
    return [t[addr + k] for k in range(count)]


def one_schedule(kind, nthreads, ntx, chooser, preconnect, wrap_lock=True, variant='plain', foreign=False):
    """variant: plain | after-undecodable (plain, after a transaction of the same client that ended with an undecodable reply) | foreign (plain, the caller threads are not threading.Thread objects) | units (every thread talks to its own unit id) | retry (retry options on, some first replies come from a foreign unit)
    | broadcast (broadcast_enable on; every second thread sends unit-0 writes that nobody answers)"""
    framing = IO.framing_of(kind)
    foreign = foreign or variant == 'foreign'      # callers that the threading module does not know (started with _thread.start_new_thread)
    sched = Sched(chooser)
    peer = LatencyPeer(framing, timeout=1.0)
    peer.foreign_first = (variant == 'retry')
    peer.silent_unit0 = (variant == 'broadcast')
    peer.drop_first = (variant == 'fault')
    env = IO.Env(peer, sched=sched)
    env.op_limit = 50000
    results = {}
    with IO.installed(env):
        kw = dict(retries=2, retry_on_empty=True, retry_on_invalid=True) if variant == 'retry' else {}
        if variant == 'broadcast':
            kw['broadcast_enable'] = True
        client = IO.make_client(kind, timeout=1.0, **kw)
        if preconnect:
            client.connect()
        lock_present = hasattr(client.transaction, '_transaction_lock')
        wrapper = None
        if wrap_lock and lock_present:
            wrapper = SchedLock(client.transaction._transaction_lock, sched)
            client.transaction._transaction_lock = wrapper
        if wrap_lock:
            # every other lock the client, its transaction manager or its framer own (none on this tree) is put under the scheduler too
            wrap_locks(sched, client, client.transaction, client.framer)
        if variant == 'after-undecodable':
            # earlier in the life of the client: one transaction whose reply arrived whole but could not be decoded (error result)
            peer.bogus_address = 999
            try:
                client.read_holding_registers(999, 1, unit=1)
            except Exception:  # noqa
                pass
            del env.trace[:]
        for i in range(nthreads):
            def work(i=i):
                name = 'T%d' % i
                for j in range(ntx):
                    addr, cnt = 1000 + i * 100 + j, 1 + (i + j) % 3
                    env.trace.append((name, 'call', addr, round(env.clock.now, 6)))
                    try:
                        if variant == 'broadcast' and i % 2:
                            r = client.write_register(addr, 0x1234 + i, unit=0)
                            results[(i, j)] = (addr, 0, [] if not hasattr(r, 'isError') and not isinstance(r, Exception) else None, repr(r)[:80])
                            env.trace.append((name, 'return', addr, round(env.clock.now, 6)))
                            continue
                        r = client.read_holding_registers(addr, cnt, unit=(1 + i * 7 if variant == 'units' else 1))
                        results[(i, j)] = (addr, cnt, getattr(r, 'registers', None), repr(r)[:80])
                    except IO.StepWatchdog:
                        results[(i, j)] = (addr, cnt, None, 'STEP-WATCHDOG')
                    except Exception as e:  # noqa
                        results[(i, j)] = (addr, cnt, None, 'RAISED %r' % (e,))
                    env.trace.append((name, 'return', addr, round(env.clock.now, 6)))
            sched.spawn('T%d' % i, work, foreign=foreign)
        status = sched.run(quiet=0.2)
    return {'status': status, 'unknown_lock_blocks': getattr(sched, 'unknown_lock_blocks', 0), 'results': results, 'trace': list(env.trace), 'choices': list(sched.choices), 'conns': env.conns,
            'framing': framing, 'lock_acquisitions': wrapper.acquisitions if wrapper else None, 'lock_present': lock_present}


def judge(out, nthreads, ntx, variant='plain'):
    """-> {kind: text} of property violations in one execution"""
    kinds = {}
    st = out['status']
    if st == 'DEADLOCK':
        kinds['deadlock'] = 'all live threads are blocked on locks of the client and none of them can proceed'
    elif st == 'STEPS':
        kinds['livelock'] = 'schedule exceeded the step bound'
    # (3) own replies
    for (i, j), (addr, cnt, regs, rep) in sorted(out['results'].items()):
        if variant == 'fault' and addr % 4 == 0:
            # the reply to the first transmission of this request is lost: an error object is the right result
            if regs is not None or 'RAISED' in rep or 'WATCHDOG' in rep:
                kinds.setdefault('wrong-or-lost-reply', 'thread %d transaction %d (address %d, reply lost) returned %s' % (i, j, addr, rep if regs is None else regs))
            continue
        if regs != expected_registers(addr, cnt):
            kinds.setdefault('wrong-or-lost-reply', 'thread %d transaction %d (address %d) returned %s' % (i, j, addr, rep if regs is None else regs))
    if st == 'OK' and len(out['results']) != nthreads * ntx:
        kinds['missing-result'] = '%d of %d calls returned' % (len(out['results']), nthreads * ntx)
    # (1) whole frames on the wire
    nframes = 0
    for c in out['conns']:
        for _, data in c.written:
            frames, pos, err = ADU.parse_stream(out['framing'], REQ, data)
            if err is not None or pos != len(data) or len(frames) != 1:
                kinds.setdefault('frame-not-whole', 'a write to the transport is not exactly one request frame: %s' % data.hex())
            nframes += len(frames)
    if variant == 'after-undecodable':
        nframes -= 1                      # (the earlier transaction of the client wrote one frame)
    if st == 'OK' and (nframes != nthreads * ntx if variant != 'retry' else not nthreads * ntx <= nframes <= 3 * nthreads * ntx) and 'wrong-or-lost-reply' not in kinds:
        kinds['frame-count'] = '%d request frames written for %d transactions' % (nframes, nthreads * ntx)
    # (2) mutual exclusion of the send..return window.  Opening a connection inside another thread's window is kept apart
    # (connect() is also called outside the lock - the recorded first-connect race); sending or receiving there never is excusable.
    owner = None
    for th, op, detail, vt in out['trace']:
        if op in ('call',):
            continue
        if op == 'return':
            if owner == th:
                owner = None
            continue
        if op in ('send', 'write', 'sendto'):
            if owner is not None and owner != th:
                kinds.setdefault('overlap', '%s sends while %s is between its send and the end of its call' % (th, owner))
            owner = th
        elif owner is not None and owner != th:
            if op in ('socket', 'connect', 'connected', 'open', 'close'):
                kinds.setdefault('overlap-connect', '%s performs %s while %s is between its send and the end of its call' % (th, op, owner))
            else:
                kinds.setdefault('overlap', '%s performs %s while %s is between its send and the end of its call' % (th, op, owner))
    return kinds


def schedule_hash(out):
    return h64(tuple((th, op) for th, op, d, vt in out['trace'] if op not in ('call', 'return')))


def double_connect(trace):
    """signature of the recorded connect race: a second connection is opened while the first is still open (no close in
    between) - two threads were inside connect() at once and the second socket replaced the first"""
    open_now = False
    for th, op, d, vt in trace:
        if op in ('connect', 'open'):
            if open_now:
                return True
            open_now = True
        elif op == 'close':
            open_now = False
    return False


def explore_config(run, kind, nthreads, ntx, preconnect, limit, sample, r, variant='plain'):
    # connect() runs outside the transaction lock: whenever the client is closed while >= 2 threads call it (first use,
    # or after a fault closed the connection) the recorded race can occur; it is excused only where the trace shows it
    region = None if (preconnect and variant != 'fault') else 'first-connect-race'

    def run_one(chooser):
        out = one_schedule(kind, nthreads, ntx, chooser, preconnect, variant=variant)
        return out['choices'], out
    unknown = 0
    for prefix, choices, out in explore(run_one, limit, r, sample):
        unknown += out.get('unknown_lock_blocks', 0)
        if unknown > 12:
            # threads keep blocking on a lock the scheduler does not control: exploring on costs wall time per block
            run.count('configs_cut_short_by_unknown_lock')
            run.observed.setdefault('unknown_lock_note', 'threads blocked on a lock other than _transaction_lock in %s %dx%d %s' % (kind, nthreads, ntx, variant))
            break
        run.count('schedules:%s' % kind)
        run.count('transport_ops', len(out['trace']))
        case = {'client': kind, 'threads': nthreads, 'transactions': ntx, 'preconnect': preconnect, 'variant': variant, 'choices': [c for c, _ in choices]}
        run.count('variant:%s' % variant)
        if region:
            run.region(region)
        else:
            run.count('clean_region_cases')
        if out['status'] == 'WATCHDOG':
            run.watchdogs += 1
        if out['lock_present'] and out['lock_acquisitions'] == 0 and out['status'] == 'OK':
            run.count('lock_wrapper_never_entered')
        kinds = judge(out, nthreads, ntx, variant)
        h = schedule_hash(out)
        run.case(h64((h, variant)), True, sample={'client': kind, 'threads': nthreads, 'transactions_each': ntx, 'preconnected': preconnect, 'variant': variant,
                                  'schedule': [c for c, _ in choices][:40],
                                  'trace_head': [(th, op) for th, op, d, vt in out['trace'] if op not in ('call', 'return')][:14],
                                  'verdict': 'serialised' if not kinds else sorted(kinds)},
                 sample_class=(kind, nthreads, ntx, preconnect, variant, bool(kinds)))
        if not kinds:
            continue
        if region and double_connect(out['trace']) and set(kinds) <= {'wrong-or-lost-reply', 'frame-count', 'overlap-connect', 'missing-result'}:
            run.known(region, 'two threads inside connect() at once: connect is called outside the transaction lock and the second socket replaces the first', case)
            continue
        run.violation('%s:%s:%s' % (kind, '+'.join(sorted(kinds)), 'clean' if not region else 'in-' + region), case,
                      '; '.join('%s: %s' % (k, v) for k, v in sorted(kinds.items()))[:800])
    return getattr(explore, 'complete', False)


def run(run):
    r = run.rng('main')
    run.rule = ('case = one interleaving (schedule = sequence of scheduler choices at transport-operation yield points) of N threads x M transactions on one client; '
                'distinct = distinct (thread, operation) sequences observed; all non-trivial (>= 2 threads); small configurations are enumerated exhaustively')
    run.assumptions = ['pre-emption is modelled at transport operations and at lock acquisition only', 'OS doubles, scripted reference server with differing reply lengths/latencies',
                       'a wall-clock watchdog on a schedule makes the run inconclusive, never violated']
    sys.setswitchinterval(1e-4)
    complete = {}
    plan = [('tcp', 2, 2, True, 1200, 0), ('tcp', 3, 1, True, 600, 0), ('rtu', 2, 1, True, 500, 0), ('rtu', 2, 2, True, 150, 50),
            ('tcp', 2, 3, True, 100, 100), ('tcp', 3, 2, True, 80, 120), ('tcp', 4, 1, True, 80, 80), ('tcp', 4, 3, True, 0, 60),
            ('tcp', 2, 1, False, 300, 0), ('rtu', 2, 1, False, 80, 30), ('tcp', 3, 1, False, 0, 60)]
    if run.thorough:
        plan = [('tcp', 2, 2, True, 5000, 0), ('tcp', 3, 1, True, 5000, 0), ('tcp', 2, 3, True, 20000, 0), ('tcp', 3, 2, True, 30000, 2000),
                ('rtu', 2, 2, True, 5000, 500), ('rtu', 3, 1, True, 5000, 0), ('tcp', 4, 1, True, 10000, 1000), ('tcp', 4, 3, True, 0, 4000),
                ('rtu', 4, 2, True, 0, 2000), ('tcp', 2, 1, False, 2000, 0), ('tcp', 2, 2, False, 3000, 500), ('rtu', 2, 1, False, 1000, 200)]
    plan = [p + ('plain',) for p in plan]
    if run.thorough:
        plan = [('tcp', 2, 2, True, 2000, 500, 'after-undecodable'), ('tcp', 3, 1, True, 2000, 0, 'after-undecodable'), ('rtu', 2, 2, True, 800, 200, 'after-undecodable'), ('tcp', 2, 2, True, 3000, 500, 'foreign'), ('tcp', 3, 1, True, 2000, 0, 'foreign'), ('rtu', 2, 2, True, 1000, 300, 'foreign'), ('tcp', 2, 2, True, 3000, 1000, 'fault'), ('tcp', 3, 1, True, 2000, 500, 'fault'), ('rtu', 2, 2, True, 1500, 500, 'fault'), ('tcp', 3, 2, True, 0, 1500, 'fault'),
                ('rtu', 2, 2, True, 2000, 500, 'broadcast'), ('ascii', 2, 2, True, 2000, 500, 'broadcast'), ('tcp', 3, 1, True, 3000, 500, 'broadcast'),
                ('binary', 3, 1, True, 1000, 500, 'broadcast'), ('tcp', 2, 2, True, 3000, 500, 'units'), ('tcp', 3, 1, True, 3000, 0, 'units'), ('rtu', 2, 2, True, 1000, 500, 'units'),
                 ('tcp', 2, 2, True, 3000, 1000, 'retry'), ('tcp', 3, 1, True, 2000, 500, 'retry'), ('rtu', 2, 1, True, 1500, 300, 'retry')] + plan
    else:
        plan = [('tcp', 2, 2, True, 100, 40, 'after-undecodable'), ('rtu', 2, 1, True, 60, 0, 'after-undecodable'), ('tcp', 2, 2, True, 120, 40, 'foreign'), ('rtu', 2, 1, True, 60, 0, 'foreign'), ('tcp', 2, 2, True, 120, 60, 'fault'), ('tcp', 3, 1, True, 60, 40, 'fault'), ('rtu', 2, 2, True, 60, 40, 'fault'),
                ('rtu', 2, 1, True, 80, 30, 'broadcast'), ('ascii', 2, 2, True, 60, 60, 'broadcast'), ('tcp', 3, 1, True, 80, 40, 'broadcast'),
                ('tcp', 2, 2, True, 150, 50, 'units'), ('tcp', 3, 1, True, 100, 0, 'units'), ('rtu', 2, 1, True, 80, 0, 'units'),
                 ('tcp', 2, 2, True, 150, 80, 'retry'), ('tcp', 3, 1, True, 100, 50, 'retry'), ('rtu', 2, 1, True, 80, 30, 'retry')] + plan
    for idx, (kind, nt, ntx, pre, limit, sample, variant) in enumerate(plan):
        if not run.mine(idx):
            continue
        done = explore_config(run, kind, nt, ntx, pre, limit, sample, r, variant)
        complete['%s %dx%d %s %s' % (kind, nt, ntx, 'connected' if pre else 'unconnected', variant)] = bool(done)
    run.observed['exhaustively_enumerated'] = complete
    if run.thorough and run.shard in (None, 0):
        free_running(run, r)
    run.floor('distinct interleavings observed', len(run.distinct), 250 if run.shard is None else 30)
    run.floor('clean-region schedules', run.counters.get('clean_region_cases', 0), 1000 if run.shard is None else 60)
    if run.counters.get('lock_wrapper_never_entered'):
        run.observed['note'] = 'the transaction lock attribute exists but was never entered in %d schedules' % run.counters['lock_wrapper_never_entered']
    repo.reset_globals()


def free_running(run, r):
    """same workload without the scheduler: real pre-emption, tiny switch interval"""
    old = sys.getswitchinterval()
    sys.setswitchinterval(1e-6)
    try:
        for it in range(300):
            framing = 'tcp'
            peer = LatencyPeer(framing)
            env = IO.Env(peer)
            results = {}
            with IO.installed(env):
                client = IO.make_client('tcp', timeout=1.0)
                client.connect()
                ths = []
                for i in range(4):
                    def work(i=i):
                        for j in range(3):
                            addr, cnt = 1000 + i * 100 + j, 1 + (i + j) % 3
                            try:
                                rr = client.read_holding_registers(addr, cnt, unit=1)
                                results[(i, j)] = (addr, cnt, getattr(rr, 'registers', None), repr(rr)[:80])
                            except BaseException as e:  # noqa
                                results[(i, j)] = (addr, cnt, None, 'RAISED %r' % (e,))
                    t = threading.Thread(target=work, name='T%d' % i, daemon=True)
                    ths.append(t)
                for t in ths:
                    t.start()
                deadline = _time.time() + 20
                for t in ths:
                    t.join(max(0.1, deadline - _time.time()))
                if any(t.is_alive() for t in ths):
                    run.watchdogs += 1
                    continue
            run.count('free_running_runs')
            bad = [(k, v) for k, v in results.items() if v[2] != expected_registers(v[0], v[1])]
            run.case(h64(('free', it, tuple((th, op) for th, op, d, vt in env.trace))), True, sample=None)
            if bad:
                run.violation('free-running:wrong-or-lost-reply', {'mode': 'free-running', 'iteration': it}, 'free-running threads: %r' % (bad[:3],))
    finally:
        sys.setswitchinterval(old)


def replay(run, case):
    if case.get('mode') == 'free-running':
        free_running(run, run.rng('replay'))
        return
    ch = case['choices']

    def chooser(step, ncand):
        return ch[step] if step < len(ch) else 0
    out = one_schedule(case['client'], case['threads'], case['transactions'], chooser, case['preconnect'], variant=case.get('variant', 'plain'))
    kinds = judge(out, case['threads'], case['transactions'], case.get('variant', 'plain'))
    for th, op, d, vt in out['trace']:
        print(' ', th, op, d, vt)
    print('status', out['status'], 'violations', kinds)
    if kinds:
        run.violation('replay:' + '+'.join(sorted(kinds)), case, str(kinds))
    run.evaluations += 1
