"""C12 - no received byte sequence can crash a server or corrupt its data.

Hostile-input monitor: structure-aware garbage is fed to every front-end; observed are
(1) exceptions leaving the serving entry (handle(), the asyncio handler task; for Twisted an
    exception out of dataReceived is 'connection closed', judged by what follows),
(2) the store: every changed cell must hold a value that a well-formed, integrity-valid write
    request contained in the bytes (reference receivers, any offset) writes there,
(3) a well-formed probe on a fresh connection (same line for the serial handler, within the
    C11 recovery bound) is answered from the store's actual contents."""
import os
from .. import frontends as FE
from .. import gen
from .. import repo
from .. import servermodel as SM
from ..core import h64
from ..spec import adu as ADU
from ..spec import pdu as S
from ..spec.pdu import REQ, RSP
from ..spec.regfile import TABLE_OF_FC
from .c04 import gen_history, layout_addresses

LEVEL = 'exploration'
SHARDS = {'thorough': 16}
ANCHORS = ['pymodbus/server/sync.py', 'pymodbus/server/async_io.py', 'pymodbus/server/asynchronous.py', 'pymodbus/factory.py',
           'pymodbus/framer/socket_framer.py', 'pymodbus/framer/rtu_framer.py', 'pymodbus/framer/ascii_framer.py', 'pymodbus/framer/binary_framer.py']
FRONTS = [('sync-tcp', 'tcp'), ('sync-tcp', 'rtu'), ('sync-tcp', 'ascii'), ('sync-tcp', 'binary'), ('sync-tcp', 'tls'),
          ('sync-serial', 'rtu'), ('sync-serial', 'ascii'), ('sync-serial', 'binary'),
          ('sync-udp', 'tcp'), ('aio-tcp', 'tcp'), ('aio-tcp', 'rtu'), ('aio-tcp', 'ascii'), ('aio-udp', 'tcp'),
          ('tw-tcp', 'tcp'), ('tw-tcp', 'rtu'), ('tw-tcp', 'ascii'), ('tw-udp', 'tcp')]
UNIT = 1
SERIAL_BOUND = {'rtu': 512, 'binary': 512, 'ascii': 1030, 'tcp': 512}


# ------------------------------------------------------------------ hostile generators
def valid_frame(r, framing, layout, uniq, write=None):
    ms = gen_history(r, layout, 1, uniq)
    m = ms[0]
    if write:
        for _ in range(20):
            if m['fc'] in (5, 6, 15, 16, 22, 23):
                break
            m = gen_history(r, layout, 1, uniq)[0]
    return m, ADU.build(framing, UNIT, S.encode(m), tid=r.randrange(65536))


def malformed_pdus(r):
    """PDUs that are framed correctly but are internally wrong"""
    out = []
    base = S.encode({'dir': REQ, 'fc': 16, 'address': 2, 'registers': [1, 2, 3]})
    for k in range(0, len(base)):
        out.append(base[:k])                                     # truncated at every length (k=0: zero-length PDU)
    out.append(base + b'\x00\x01\x02')                           # over-long
    out.append(bytes([16, 0, 2, 0, 3, 2, 0, 1]))                 # quantity 3, byte count 2
    out.append(bytes([16, 0, 2, 0, 3, 7, 0, 1, 0, 2, 0, 3, 9]))  # odd byte count
    out.append(bytes([15, 0, 2, 0, 20, 1, 0xFF]))                # quantity 20, one data byte
    out.append(bytes([23, 0, 0, 0, 1, 0, 0, 0, 1, 1, 0]))        # odd write byte count
    out.append(bytes([23, 0, 0, 0, 1, 0, 0, 0, 3, 2, 0, 1]))
    out.append(bytes([8, 0x12, 0x34, 0, 0]))                     # unknown sub-function
    out.append(bytes([8, 0, 0]))                                 # diagnostic without data
    out.append(bytes([8, 0, 0, 1, 2, 3, 4, 5, 6]))
    out.append(bytes([43, 14, 9, 0]))                            # read code out of range
    out.append(bytes([43, 13, 1, 0]))                            # unknown MEI type
    out.append(bytes([20, 7, 6, 0, 1, 0, 2, 0]))                 # file record request cut short
    out.append(bytes([21, 200, 6, 0, 1]))
    # file-record sub-requests with a reference type other than 6, without data, with lengths that disagree
    out.append(bytes([21, 9, 7, 0, 1, 0, 2, 0, 1, 0xAB, 0xCD]))
    out.append(bytes([21, 9, 0, 0, 1, 0, 2, 0, 1, 0xAB, 0xCD]))
    out.append(bytes([21, 16, 6, 0, 1, 0, 2, 0, 1, 0xAB, 0xCD, 0xFF, 0, 1, 0, 2, 0, 0]))
    out.append(bytes([21, 7, 6, 0, 1, 0, 2, 0, 0]))
    out.append(bytes([21, 0]))
    out.append(bytes([21, 3, 6, 0, 1]))
    out.append(bytes([20, 7, 5, 0, 1, 0, 2, 0, 1]))
    out.append(bytes([20, 14, 6, 0, 1, 0, 2, 0, 1, 0, 0, 1, 0, 2, 0, 1]))
    out.append(bytes([20, 0]))
    out.append(bytes([24, 0]))
    out.append(bytes([22, 0, 1, 0xFF]))
    out.append(bytes([1]))
    out.append(bytes([3, 0]))
    out.append(bytes([5, 0, 1, 0x12]))
    out.append(bytes([r.randrange(256)]) + bytes(r.randrange(256) for _ in range(r.randint(0, 12))))
    out.append(bytes([0x83, 2]))                                 # a response sent to a server
    out.append(bytes([0x63]))                                    # unassigned function code, no data
    return out


def hostile_stream(r, framing, layout, uniq, cls):
    """-> (bytes, list of (m, frame) valid frames deliberately included)"""
    if cls == 'random':
        return bytes(r.randrange(256) for _ in range(r.randint(1, 300))), []
    if cls == 'blob':
        return bytes(r.getrandbits(8) for _ in range(65536)), []
    if cls == 'malformed-pdu':
        pdus = r.sample(malformed_pdus(r), 3)
        m, good = valid_frame(r, framing, layout, uniq, write=True)
        parts = [ADU.build(framing, UNIT, p, tid=r.randrange(65536)) if p or framing != 'tls' else b'' for p in pdus]
        k = r.randrange(len(parts) + 1)
        parts.insert(k, good)
        return b''.join(parts), [(m, good)]
    if cls == 'length-fields':
        m, good = valid_frame(r, framing, layout, uniq, write=True)
        b = bytearray(good)
        if framing == 'tcp':
            v = r.choice([0, 1, 2, 3, 65535, 254, 255, 256, 300])
            b[4], b[5] = v >> 8, v & 0xFF
        elif framing == 'rtu' and len(b) > 7:
            b[min(6, len(b) - 1)] = r.choice([0, 0xFF, 0x7F])
        elif framing == 'ascii':
            b = bytearray(b':' + bytes(r.choice(b'0123456789ABCDEFG :\r') for _ in range(r.randint(0, 40))) + b'\r\n')
        else:
            b = bytearray(b'{' + bytes(r.choice([0x7B, 0x7D, 1, 2, 16]) for _ in range(r.randint(0, 10))) + b'}')
        m2, good2 = valid_frame(r, framing, layout, uniq, write=True)
        return bytes(b) + good2, [(m2, good2)]
    if cls == 'mutated-traffic':
        frames = [valid_frame(r, framing, layout, uniq, write=(i % 2 == 0)) for i in range(r.randint(2, 6))]
        data = bytearray(b''.join(f for _, f in frames))
        for _ in range(r.randint(1, 4)):
            op = r.choice(['flip', 'del', 'ins', 'dup', 'set'])
            i = r.randrange(len(data))
            if op == 'flip':
                data[i] ^= 1 << r.randrange(8)
            elif op == 'del':
                del data[i]
            elif op == 'ins':
                data.insert(i, r.randrange(256))
            elif op == 'dup':
                j = r.randrange(i, min(len(data), i + 12) + 0) if i < len(data) else i
                data[i:i] = data[i:j]
            else:
                data[i] = r.choice([0, 0xFF, 0x3A, 0x7B, 0x7D, 0x0D, 0x0A])
            if not data:
                data = bytearray(b'\x00')
        return bytes(data), frames
    if cls == 'valid':
        frames = [valid_frame(r, framing, layout, uniq, write=(i % 2 == 0)) for i in range(r.randint(1, 5))]
        return b''.join(f for _, f in frames), frames
    if cls == 'foreign-traffic':
        # a shared line: well-formed frames for other units (of other lengths than ours) between the frames for this server
        frames, parts = [], []
        for i in range(r.randint(2, 6)):
            if r.random() < 0.5:
                other = r.choice([2, 9, 200])
                m = r.choice([{'dir': REQ, 'fc': 16, 'address': 3, 'registers': [r.randrange(65536) for _ in range(r.randint(1, 20))]},
                              {'dir': REQ, 'fc': 3, 'address': 1, 'count': 2}, {'dir': REQ, 'fc': 15, 'address': 0, 'bits': [True] * r.randint(1, 40)}])
                parts.append(ADU.build(framing, other, S.encode(m), tid=r.randrange(65536)) if framing != 'tls' else b'')
            else:
                m, f = valid_frame(r, framing, layout, uniq, write=(i % 2 == 0))
                frames.append((m, f))
                parts.append(f)
        ALIGNED[0] = [p for p in parts if p]
        return b''.join(parts), frames
    raise ValueError(cls)


ALIGNED = [None]          # the frame-aligned reads of the last 'foreign-traffic' stream (one frame per read)
CLASSES = ['random', 'malformed-pdu', 'length-fields', 'mutated-traffic', 'valid', 'malformed-pdu', 'mutated-traffic', 'foreign-traffic']


def split(r, data, datagram):
    if datagram:
        # datagrams: the stream is cut at random points, each piece is one datagram
        pass
    n = len(data)
    if n <= 1 or r.random() < 0.3:
        return [data] if not (datagram and r.random() < 0.2) else [data, b'']
    cuts = sorted(set(r.randrange(1, n) for _ in range(r.randint(1, 5))))
    pts = [0] + cuts + [n]
    out = [data[a:b] for a, b in zip(pts, pts[1:])]
    if datagram and r.random() < 0.2:
        out.insert(r.randrange(len(out) + 1), b'')          # a zero-length datagram is legal
    return out


# ------------------------------------------------------------------ oracle pieces
def write_effects(m):
    """[(table, addr, value or ('mask', and, or))] a write request prescribes"""
    fc = m.get('fc')
    if m.get('illegal') or m.get('malformed') or fc not in (5, 6, 15, 16, 22, 23):
        return []
    if fc == 5:
        return [('c', m['address'], m['value'] == 0xFF00)]
    if fc == 6:
        return [('h', m['address'], m['value'])]
    if fc == 15:
        return [('c', m['address'] + i, bool(b)) for i, b in enumerate(m['bits'])]
    if fc == 16:
        return [('h', m['address'] + i, v) for i, v in enumerate(m['registers'])]
    if fc == 22:
        return [('h', m['address'], ('mask', m['and_mask'], m['or_mask']))]
    return [('h', m['write_address'] + i, v) for i, v in enumerate(m['registers'])]


def prefix_requests(pdu):
    """well-formed write requests that are a proper prefix of a non-conformant (over-long) PDU"""
    out = []
    for k in range(5, len(pdu)):
        m = ADU._try(REQ, pdu[:k])
        if m is not None and write_effects(m):
            out.append(m)
    return out


LOOSE_SLUGS = set()


def unjustified_changes(framing, streams, before, after, unit_of_store, loose=False, layout=None):
    """cells whose final value no candidate write request in the bytes could have produced.
    loose=True also accepts integrity-valid frames whose PDU is a valid write request followed by extra bytes.
    With a layout, a candidate request that the reference register file answers with an exception (quantity out of
    range, any addressed cell missing - for FC23 in either half) prescribes no change at all."""
    allowed = {}
    masks = {}
    rf = None
    if layout is not None:
        mdl = SM.build_model(layout)
        rf = mdl.only if mdl.single else mdl.units.get(unit_of_store)
    for data in streams:
        cands = ADU.candidates(framing, REQ, data, loose=loose) if framing != 'tls' else tls_candidates(data, loose)
        if loose and framing == 'ascii':
            from .c07 import lenient_ascii_candidates
            extra = list(lenient_ascii_candidates(REQ, data))        # (those with a non-conformant PDU go through prefix_requests below)
            if extra:
                LOOSE_SLUGS.add('ascii-lrc-field-parsed-leniently')
            cands = list(cands) + extra
        msgs = []
        for f in cands:
            if f.msg.get('malformed'):
                pre = prefix_requests(bytes(f.pdu))
                if pre:
                    LOOSE_SLUGS.add('pdu-trailing-bytes-ignored')
                msgs += pre
                p = bytes(f.pdu)
                if len(p) >= 6 and p[0] == 15 and len(p) == 6 + p[5] and ((p[3] << 8) | p[4]) > 8 * p[5]:
                    # FC15 whose quantity exceeds the bits present (C05 finding): executed with the bits present
                    LOOSE_SLUGS.add('fc15-quantity-vs-bytecount')
                    msgs.append({'dir': REQ, 'fc': 15, 'address': (p[1] << 8) | p[2], 'bits': S.unpack_bits(p[6:])})
            else:
                msgs.append(f.msg)
        for msg in msgs:
            if rf is not None and write_effects(msg):
                try:
                    if rf.classify(msg) != 0:
                        continue
                except (KeyError, TypeError):
                    pass
            for t, a, v in write_effects(msg):
                if isinstance(v, tuple):
                    masks.setdefault((t, a), []).append(v)
                else:
                    allowed.setdefault((t, a), set()).add(v)
    bad = []
    for t in SM.TABLES:
        for a, v in after[unit_of_store][t].items():
            old = before[unit_of_store][t].get(a)
            if v == old:
                continue
            ok = v in allowed.get((t, a), ())
            if not ok and (t, a) in masks:
                vals = {old} | set(allowed.get((t, a), ()))
                for _ in range(3):
                    vals |= {(x & am) | (om & ~am & 0xFFFF) for x in list(vals) for _, am, om in masks[(t, a)] if isinstance(x, int)}
                ok = v in vals
            if not ok:
                bad.append((t, a, old, v))
    return bad


def tls_candidates(data, loose=False):
    """TLS carries bare PDUs without length or check: every decodable prefix of what the framer holds is 'contained'.
    loose=True adds what the framer holds as a non-conformant PDU (judged like over-long / inconsistent PDUs of the other framings)."""
    out = []
    for k in range(1, min(len(data), 300) + 1):
        m = ADU._try(REQ, data[:k])
        if m is not None:
            out.append(ADU.Frame(0, k, 0, data[:k], m))
    if loose and data:
        ks = {min(len(data), 300)}
        if len(data) >= 6 and data[0] == 15 and 6 + data[5] <= len(data):
            ks.add(6 + data[5])
        for k in sorted(ks):
            if ADU._try(REQ, data[:k]) is None:
                out.append(ADU.Frame(0, k, 0, data[:k], {'dir': REQ, 'fc': data[0], 'malformed': True}))
    return out


def rtu_one_frame_per_read(reads):
    """input predicate: every read is exactly one CRC-valid RTU frame (the only traffic the one-frame-per-call RTU framer keeps
    up with; a read holding two frames leaves the serial server one answer behind for good)"""
    for chunk in reads:
        c = [f for f in ADU.candidates('rtu', REQ, chunk) if f.start == 0 and f.end == len(chunk)]
        if not c:
            return False
    return True


def tcp_desync(front, stream, reads):
    """input predicate of the tcp-length-inconsistent-with-pdu region: the reference receiver cannot parse what one receiver
    instance is given - the connection's stream, or (datagram front-ends, one receive call per datagram) any single datagram"""
    if front in FE.STREAM:
        return ADU.parse_stream('tcp', REQ, stream)[2] is not None
    for dg in reads:
        fs, pos, err = ADU.parse_stream('tcp', REQ, dg)
        if err is not None or pos != len(dg):
            return True
    return False


def probe_reads(framing, layout, n):
    addrs = layout_addresses(layout['units'][UNIT], layout['zero_mode'])
    cells = addrs['h'][2]
    out = []
    a = cells[0]
    for i in range(n):
        # consecutive probes differ (address cycling through the table, one or two registers where possible): an endpoint that
        # answers one request late cannot pass with the answer to the previous probe
        a = cells[(n - 1 - i) % len(cells)]
        m = {'dir': REQ, 'fc': 3, 'address': a, 'count': 1}
        out.append((m, ADU.build(framing, UNIT, S.encode(m), tid=0x5000 + i)))
    return a, out


STALLS = [0]


def check(run, case, _second=False):
    front, framing, layout = case['front'], case['framing'], case['layout']
    repo.reset_globals()
    ctx, model, blocks = SM.build(layout)
    before = SM.norm_dump(SM.dump(blocks, layout['zero_mode']))
    reads = case['reads']
    res = FE.feed(front, framing, ctx, list(reads))
    if res.stalled and not _second:
        # the front-end did not return within the wall-clock guard: once more before it is judged (a stall that does not
        # repeat was the machine and is counted as a watchdog)
        run.count('stalls_seen')
        again = check(run, case, _second=True)
        return again
    if res.stalled:
        STALLS[0] += 1
    elif _second:
        run.watchdogs += 1
    after = SM.norm_dump(SM.dump(blocks, layout['zero_mode']))
    tag = '%s/%s' % (front, framing)
    run.count('hostile_inputs:%s' % front)
    run.count('hostile_bytes', sum(len(x) for x in reads))
    regs = set()
    stream = b''.join(reads)
    if front.startswith('tw') and len(stream) < 5000 and any(f.msg.get('fc') == 8 and f.msg.get('sub') == 4 for f in ADU.candidates(framing, REQ, stream)):
        regs.add('twisted-listen-only-is-permanent')
    if front == 'sync-serial' and framing == 'rtu' and not rtu_one_frame_per_read(reads):
        regs.add('rtu-one-frame-per-call')
    kinds = {}
    # (1) escapes
    if front.startswith('tw'):
        run.count('twisted_connection_closed_by_exception', len(res.escaped))
    else:
        for e in res.escaped:
            kinds['escaped:%s' % type(e).__name__] = 'exception left the serving entry of %s: %r' % (tag, e)
    if res.stuck:
        kinds['stuck'] = 'the handler of %s spins / never returns' % tag
    # (2) store
    # (the asyncio and Twisted datagram protocols keep one framer for all datagrams: a request may be contained in consecutive datagrams)
    streams = [stream] if front in FE.STREAM else list(reads) + ([stream] if front in ('aio-udp', 'tw-udp') and len(reads) > 1 else [])
    if framing == 'tls':
        streams = [b''.join(reads[i:j]) for i in range(len(reads)) for j in range(i + 1, len(reads) + 1)]
    bad = unjustified_changes(framing, streams, before, after, UNIT, layout=layout) if after != before else []
    run.count('store_judgements')
    if after != before:
        run.count('stores_changed_by_hostile_input')
    LOOSE_SLUGS.clear()
    if bad and framing != 'tcp' and not unjustified_changes(framing, streams, before, after, UNIT, loose=True, layout=layout):
        regs |= set(LOOSE_SLUGS)
        kinds['store-change-from-nonconformant-pdu'] = 'cells changed by a checksum-valid frame whose PDU is not a conformant request (%s): %r' % (sorted(LOOSE_SLUGS), bad[:4])
    elif bad:
        if framing == 'tcp' and tcp_desync(front, stream, reads):
            regs.add('tcp-length-inconsistent-with-pdu')
            kinds['unjustified-store-change-after-tcp-desync'] = 'cells changed without a justifying request: %r' % (bad[:4],)
        else:
            kinds['unjustified-store-change'] = 'cells (table, addr, old, new) changed although no valid write request in the bytes writes that value: %r' % (bad[:4],)
    # (3) probe on a fresh connection / later on the same serial line
    # (a datagram endpoint is one long-lived protocol object - there is no fresh connection: the probes go to the same endpoint
    # after the hostile datagrams, and the third one must be answered)
    dgram = front in FE.DATAGRAM
    serial = front == 'sync-serial' or dgram
    if front == 'sync-serial':
        nprobe = SERIAL_BOUND[framing] // 8 + 12
    elif dgram:
        nprobe = 3
    else:
        nprobe = 1
    addr, probes = probe_reads(framing, layout, nprobe)
    now = SM.norm_dump(SM.dump(blocks, layout['zero_mode']))
    if serial:
        # same line: the hostile bytes followed by the probes, one per read, on one handler
        ctx2, model2, blocks2 = SM.build(layout)
        res2 = FE.feed(front, framing, ctx2, list(reads) + [p for _, p in probes]) if not res.stalled else res
        if res2.stalled and not res.stalled:
            ctx2, model2, blocks2 = SM.build(layout)
            res2 = FE.feed(front, framing, ctx2, list(reads) + [p for _, p in probes])
            if res2.stalled:
                kinds['stuck'] = 'the handler of %s blocks while serving the requests that follow the hostile input' % tag
            else:
                run.watchdogs += 1
        out = b''.join(res2.per_read[len(reads):])
        now = SM.norm_dump(SM.dump(blocks2, layout['zero_mode']))
        for e in res2.escaped:
            if not front.startswith('tw'):
                kinds['escaped:%s' % type(e).__name__] = 'exception left handle(): %r' % (e,)
    else:
        res2 = FE.feed(front, framing, ctx, [probes[0][1]]) if not res.stalled else res
        if res2.stalled and not res.stalled:
            res2 = FE.feed(front, framing, ctx, [probes[0][1]])          # once more before it is judged
            if res2.stalled:
                kinds['stuck'] = 'after the hostile input a fresh connection to %s is never served: the handler blocks' % tag
            else:
                run.watchdogs += 1
        out = res2.out if front in FE.STREAM else b''.join(d for d, _ in res2.datagrams)
        for e in res2.escaped:
            if not front.startswith('tw'):
                kinds['escaped-on-probe:%s' % type(e).__name__] = repr(e)
    want_val = now[UNIT]['h'].get(addr)
    last_m, last_p = probes[-1]
    want_pdu = S.encode({'dir': RSP, 'fc': 3, 'registers': [want_val]}) if want_val is not None else bytes([0x83, 2])
    want = ADU.build(framing, UNIT, want_pdu, tid=0x5000 + nprobe - 1)
    run.count('probes')
    if not (out.endswith(want) or (framing == 'binary' and _binary_tail_ok(out, UNIT, want_pdu))):
        if serial and not dgram and framing == 'ascii' and _ascii_stray_colon(stream):
            regs.add('ascii-bad-lrc-blocks-forever')
            kinds['probe-unanswered-after-ascii-span'] = 'serial line deaf after the hostile bytes'
        elif serial and not dgram and framing == 'binary' and any(b in (0x7B, 0x7D) for b in want[1:-1]):
            pass                      # the probe's own reply needs escaping: not a liveness matter
        else:
            kinds['probe-unanswered'] = 'after the hostile input a well-formed read on %s was answered with %s, expected ...%s' % (
                'the same datagram endpoint (third probe)' if dgram else 'the same line' if serial else 'a fresh connection', out[-40:].hex(), want.hex())
    else:
        run.count('probes_answered')
    if not regs:
        run.count('clean_region_cases')
    for slug in regs:
        run.region(slug)
    if not kinds:
        return True
    excuse = set()
    if 'twisted-listen-only-is-permanent' in regs:
        excuse |= {'probe-unanswered'}
    if 'rtu-one-frame-per-call' in regs:
        excuse |= {'probe-unanswered'}
    if 'tcp-length-inconsistent-with-pdu' in regs:
        excuse |= {'unjustified-store-change-after-tcp-desync'}
    if 'ascii-bad-lrc-blocks-forever' in regs:
        excuse |= {'probe-unanswered-after-ascii-span'}
    if 'pdu-trailing-bytes-ignored' in regs or 'fc15-quantity-vs-bytecount' in regs or 'ascii-lrc-field-parsed-leniently' in regs:
        excuse |= {'store-change-from-nonconformant-pdu'}
    left = set(kinds) - excuse
    used = {'twisted-listen-only-is-permanent': {'probe-unanswered'}, 'rtu-one-frame-per-call': {'probe-unanswered'},
            'tcp-length-inconsistent-with-pdu': {'unjustified-store-change-after-tcp-desync'},
            'ascii-bad-lrc-blocks-forever': {'probe-unanswered-after-ascii-span'},
            'pdu-trailing-bytes-ignored': {'store-change-from-nonconformant-pdu'}, 'fc15-quantity-vs-bytecount': {'store-change-from-nonconformant-pdu'},
            'ascii-lrc-field-parsed-leniently': {'store-change-from-nonconformant-pdu'}}
    if not left:
        for slug in sorted(regs):
            if not (used.get(slug, set()) & set(kinds)):
                continue
            run.known(slug, {'rtu-one-frame-per-call': 'a read that is not exactly one RTU frame leaves frames parked in the one-frame-per-call framer: the serial server answers every later request one read late',
                             'twisted-listen-only-is-permanent': 'a force-listen-only request silences the Twisted front-end for every later connection',
                             'tcp-length-inconsistent-with-pdu': 'after an MBAP frame whose length disagrees with its PDU the TCP framer executes requests decoded from mis-aligned bytes',
                             'ascii-lrc-field-parsed-leniently': 'an ASCII frame whose LRC field is not two hex digits is accepted (int(x,16) leniency) and executed',
                             'fc15-quantity-vs-bytecount': 'FC15 whose quantity exceeds the bits present is executed with the bits present',
                             'pdu-trailing-bytes-ignored': 'a checksum-valid frame whose PDU is a write request followed by extra bytes is executed (decode ignores trailing bytes)',
                             'ascii-bad-lrc-blocks-forever': "a ':' span that fails its check is never discarded: the serial line stays deaf"}[slug], case)
        return False
    run.violation('%s:%s:%s' % (tag, '+'.join(sorted(left)), 'clean' if not regs else 'in-' + '+'.join(sorted(regs))), case,
                  '; '.join('%s: %s' % (k, kinds[k]) for k in sorted(left))[:900])
    return False


def _binary_tail_ok(out, unit, pdu):
    i = out.rfind(b'{')
    return i >= 0 and ADU.binary_build_ok(out[i:], unit, pdu)


def _ascii_stray_colon(g):
    from .c11 import ascii_stray_colon
    return ascii_stray_colon(g)


def gen_layout(r):
    # (a third of the servers are multi-unit servers hosting one unit: the framers' unit filter is then active)
    return {'single': r.random() < 0.67, 'zero_mode': bool(r.getrandbits(1)), 'units': {UNIT: SM.unit_layout(r, share=False, small=True)}}


def run(run):
    r = run.rng('main')
    uniq = [0]
    run.rule = ('case = (front-end, framing, hostile byte string of a class: random / valid framing around malformed PDUs / hostile length fields / mutated valid traffic / valid, '
                'cut into reads); oracles: no exception leaves the serving entry, every changed cell is justified by a valid write request present in the bytes, '
                'a probe read on a fresh connection (same line for serial) is answered from the actual store; distinct = (front, framing, bytes, cuts); all non-trivial')
    run.assumptions = ['reference receivers (any-offset candidates) define the justified writes', 'Twisted: an exception out of dataReceived means the reactor closes that connection',
                       'serial-style handler: recovery within the C11 bound on the same line']
    n = run.scale(260, 30000)
    for front, framing in FRONTS:
        for i in range(n):
            layout = gen_layout(r)
            if framing == 'tls':
                layout['single'] = True          # TLS carries no unit id: only single-context servers can be addressed
            cls = CLASSES[i % len(CLASSES)] if not (i == n - 1 and run.shard in (None, 0) and front in ('sync-tcp', 'aio-tcp', 'tw-tcp', 'sync-serial')) else 'blob'
            data, frames = hostile_stream(r, framing, layout, uniq, cls)
            reads = split(r, data, front in FE.DATAGRAM) if cls != 'blob' else [data[i:i + 1024] for i in range(0, len(data), 1024)]
            if cls == 'foreign-traffic' and (i // len(CLASSES)) % 2 == 0 and ALIGNED[0]:
                reads = list(ALIGNED[0])            # one whole frame per read
            case = {'front': front, 'framing': framing, 'layout': layout, 'reads': reads, 'class': cls}
            if STALLS[0] >= 3 or FE.STALL_COUNT[0] >= 6:
                break                     # a front-end that blocks for ever costs two guard periods per case: three witnesses are enough
            ok = check(run, case)
            run.count('class:%s' % cls)
            run.case(h64((front, framing, data, tuple(len(x) for x in reads))), True,
                     sample={'front': front, 'framing': framing, 'class': cls, 'reads': [x.hex()[:80] for x in reads[:4]], 'total_bytes': len(data),
                             'verdict': 'survived, store justified, probe answered' if ok else 'differs'},
                     sample_class=(front, cls))
    # well-framed writes just beyond the quantity limits against tables big enough to hold them (they must change nothing)
    if run.shard in (None, 0):
        for front, framing in FRONTS:
            if framing == 'tls' or STALLS[0] >= 3 or FE.STALL_COUNT[0] >= 6:
                continue
            for k in range(run.scale(2, 12)):
                z = bool(k % 2)
                layout = {'single': True, 'zero_mode': z, 'units': {UNIT: {'c': SM.big_block_spec(True, z), 'd': SM.big_block_spec(True, z),
                                                                           'i': SM.big_block_spec(False, z), 'h': SM.big_block_spec(False, z), 'alias': {}}}}
                a = r.randrange(0, 60000)
                q15 = r.choice([1969, 1970, 1976, 1999, 2000])
                pdus = [S.encode({'dir': REQ, 'fc': 15, 'address': a, 'bits': [True] * 8})[:3] + bytes([q15 >> 8, q15 & 0xFF, (q15 + 7) // 8]) + bytes([0xFF] * ((q15 + 7) // 8)),
                        bytes([16, a >> 8, a & 0xFF, 0, 124, 248]) + bytes([0x12, 0x34] * 124),
                        bytes([23, 0, 1, 0, 1, a >> 8, a & 0xFF, 0, 122, 244]) + bytes([0x56, 0x78] * 122)]
                pdu = pdus[k % 3] if framing != 'rtu' or len(pdus[k % 3]) <= 253 else pdus[0]
                data = ADU.build(framing, UNIT, pdu, tid=r.randrange(65536))
                m, good = valid_frame(r, framing, layout, uniq, write=True)
                data = data + good
                case = {'front': front, 'framing': framing, 'layout': layout, 'reads': [data] if front not in FE.DATAGRAM else [data[:len(data) - len(good)], good], 'class': 'limit-writes'}
                ok = check(run, case)
                run.count('class:limit-writes')
                run.case(h64((front, framing, data)), True,
                         sample={'front': front, 'framing': framing, 'class': 'limit-writes', 'first_pdu': pdu[:8].hex(), 'total_bytes': len(data),
                                 'verdict': 'survived, store justified, probe answered' if ok else 'differs'}, sample_class=(front, 'limit-writes'))
    if run.shard in (None, 0):
        from . import loopback
        loopback.udp_hostile(run, r, run.scale(4, 60), gen_layout, probe_reads)
    if run.thorough and run.shard in (None, 0):
        from . import loopback
        loopback.hostile(run, r, uniq, 120, gen_layout, hostile_stream, split, [c for c in CLASSES if c != 'blob'], unjustified_changes, probe_reads)
    run.floor('hostile inputs per front-end (min)', min(run.counters.get('hostile_inputs:%s' % f, 0) for f in FE.ALL), 50 if run.shard is None else 3)
    run.floor('probes answered', run.counters.get('probes_answered', 0), 700 if run.shard is None else 40)
    run.floor('stores changed by (justified) writes inside hostile input', run.counters.get('stores_changed_by_hostile_input', 0), 100 if run.shard is None else 5)
    repo.reset_globals()


def replay(run, case):
    case['layout']['units'] = {int(k): v for k, v in case['layout']['units'].items()}
    print('ok' if check(run, case) else 'differs')
    run.evaluations += 1
