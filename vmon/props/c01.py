"""C01 - PDU wire format conforms to the Modbus application protocol.

Oracle: the independent spec codec (vmon/spec/pdu.py) in lock-step with the real
encode()/decode() of every message class registered in the two decoders."""
import struct

from .. import adapters as A
from .. import gen
from ..core import h64
from ..spec import pdu as S
from ..spec.pdu import REQ, RSP

from pymodbus.factory import ServerDecoder, ClientDecoder
import pymodbus.pdu as pp

LEVEL = 'exploration'
SHARDS = {'thorough': 16}
ANCHORS = ['pymodbus/pdu.py', 'pymodbus/factory.py', 'pymodbus/bit_read_message.py',
           'pymodbus/bit_write_message.py', 'pymodbus/register_read_message.py',
           'pymodbus/register_write_message.py', 'pymodbus/file_message.py',
           'pymodbus/other_message.py', 'pymodbus/diag_message.py', 'pymodbus/mei_message.py',
           'pymodbus/utilities.py']

SD, CD = ServerDecoder(), ClientDecoder()


def decoder(d):
    return SD if d == REQ else CD


def kind_of(m):
    if m['dir'] == RSP and m['fc'] >= 0x80:
        return 'rsp/exc'
    return '%s/%d%s' % (m['dir'], m['fc'], '/%d' % m['sub'] if m['fc'] == 8 else '')


# ----------------------------------------------------------------- known findings (C01 part)
def known_encode(run, m, got, want, case):
    k = kind_of(m)
    if k == 'rsp/24' and len(m['values']) >= 1:
        if len(got) == len(want) and got[:3] == want[:3] and got[5:] == want[5:]:
            return run.known('fifo-count', 'ReadFifoQueueResponse encodes the FIFO count field as 2N (bytes) instead of N', case)
    if k == 'rsp/20' and len(m['records']) >= 1:
        if len(got) == len(want):
            hdr, pos = set(), 2
            for data in m['records']:
                hdr |= {pos, pos + 1}
                pos += 2 + len(data)
            if all(i in hdr for i in range(len(got)) if got[i] != want[i]):
                return run.known('filerecord-subresponse-layout',
                                 'ReadFileRecordResponse encodes each sub-response header as (0x06, record_length) instead of (1+2L, 0x06)', case)
    return False


def known_decode(run, m, obj, exc, case):
    k = kind_of(m)
    if k == 'rsp/24' and len(m['values']) >= 1:
        if obj is not None and type(obj) is A.expected_class(m):
            n = len(m['values'])
            if list(obj.values) == list(m['values'])[:max(0, n - 4)]:
                return run.known('fifo-count', 'ReadFifoQueueResponse.decode reads count-4 values from a spec-conformant PDU', case)
    if k == 'rsp/17':
        if obj is not None and type(obj) is A.expected_class(m):
            if bytes(obj.identifier) == m['identifier'] + bytes([m['run']]) and bool(obj.status) == (m['run'] == 0xFF):
                return run.known('slaveid-identifier', 'ReportSlaveIdResponse.decode includes the run-indicator byte in identifier', case)
    if k == 'req/8/0' and len(m['data']) != 1:
        if isinstance(exc, struct.error):
            return run.known('diag-request-multiword', 'server decoder raises struct.error for a diagnostic request with != 1 data word', case)
    return False


def regions_of(m):
    """known-finding regions a case lies in, by input predicate only"""
    k = kind_of(m)
    out = []
    if k == 'rsp/24' and len(m['values']) >= 1:
        out.append('fifo-count')
    if k == 'rsp/20' and len(m['records']) >= 1:
        out.append('filerecord-subresponse-layout')
    if k == 'rsp/17':
        out.append('slaveid-identifier')
    if k == 'req/8/0' and len(m['data']) != 1:
        out.append('diag-request-multiword')
    return out


# ----------------------------------------------------------------- the two monitors
def check_encode(run, m):
    """constructed message -> bytes must equal the spec PDU"""
    case = {'op': 'encode', 'm': m}
    try:
        want = S.encode(m)
    except S.SpecError:
        return None                      # the wire format cannot represent it (DESIGN 5.0)
    if len(want) > 256:
        return None
    try:
        obj = A.build(m)
    except A.Unrepresentable:
        return None
    k = kind_of(m)
    run.count('enc:' + k)
    try:
        got = bytes([obj.function_code]) + obj.encode()
    except Exception as e:  # noqa
        if len(want) > 253:
            return None                  # beyond the PDU size: no spec PDU to compare with
        run.violation('encode-raised:%s:%s' % (k, type(e).__name__), case, 'encode raised %r for %r' % (e, _short(m)))
        return False
    run.count('oracle_comparisons')
    if got != want:
        if not known_encode(run, m, got, want, case):
            run.violation('encode-mismatch:%s:%s' % (k, _diffsig(got, want)), case,
                          'encode of %r gave %s, spec says %s' % (_short(m), got.hex(), want.hex()))
        return False
    return check_reassigned(run, m, k, want)


_PREV = {}
# message classes that compute their length fields once, in the constructor (observed on this tree; assigning a longer list to such
# an object afterwards is not something the class offers - its documentation gives the constructor as the only way in)
FROZEN_AT_CONSTRUCTION = {'req/16'}
# kinds whose objects the adapter completes through attributes that are not constructor parameters (status word, paging fields):
# setting only the constructor parameters does not describe the new message
NOT_REASSIGNABLE_BY_PARAMETERS = {'rsp/11', 'rsp/43'}


def check_reassigned(run, m, k, want):
    """an application's message object used again: built for the previous message of this kind and encoded, then the attributes
    that are constructor parameters set to the new values - encode() has to give the spec PDU of the new values"""
    import copy
    import inspect
    prev = _PREV.get(k)
    _PREV[k] = m
    if prev is None or prev == m or regions_of(m) or regions_of(prev) or k in NOT_REASSIGNABLE_BY_PARAMETERS:
        return True
    try:
        obj, target = A.build(prev), A.build(m)
        obj.encode()
    except Exception:  # noqa
        return True
    names = [n for n in inspect.signature(type(obj).__init__).parameters if n not in ('self', 'kwargs') and n in vars(target) and n in vars(obj)]
    if not names:
        return True
    for n in names:
        setattr(obj, n, copy.deepcopy(getattr(target, n)))
    run.count('reassigned_encodes')
    try:
        got = bytes([obj.function_code]) + obj.encode()
    except Exception as e:  # noqa
        got = repr(e).encode()
    if got == want:
        return True
    if k in FROZEN_AT_CONSTRUCTION:
        run.count('reassigned_frozen_kinds_skipped')
        return True
    run.violation('reassigned-encode-mismatch:%s' % k, {'op': 'reassign', 'm': m, 'prev': prev},
                  'object built for %r, attributes %r then set to those of %r: encode gave %s, spec says %s' % (_short(prev), names, _short(m), got.hex()[:80], want.hex()[:80]))
    return False


def scribble(obj):
    """The application owns a decoded message: it may edit the lists it was given (rr.bits[i] = x, del rr.registers[n:], ...).
    Every mutable container reachable from the object is overwritten in place after the comparison, so that state shared between
    a decoded message and the library (lookup tables, cached results, template objects) shows up in a later decode."""
    for name, v in list(vars(obj).items()):
        if isinstance(v, list):
            for i in range(len(v)):
                x = v[i]
                v[i] = (not x) if isinstance(x, bool) else (x ^ 0x5A5A) & 0xFFFF if isinstance(x, int) else x
            v.append(v[0] if v else 0)
        elif isinstance(v, dict):
            for k in list(v):
                if isinstance(v[k], list):
                    v[k].append(b'scribble')
                else:
                    v[k] = b'scribble'


def check_decode(run, m):
    """spec-conformant PDU -> message of the registered class with exactly the wire's fields"""
    case = {'op': 'decode', 'm': m}
    try:
        pdu = S.encode(m)
        back = S.decode(m['dir'], pdu)
    except S.SpecError:
        return None
    if len(pdu) > 253:
        return None
    k = kind_of(m)
    run.count('dec:' + k)
    obj, exc = None, None
    try:
        obj = decoder(m['dir']).decode(pdu)
    except Exception as e:  # noqa
        exc = e
    run.count('oracle_comparisons')
    ok = False
    why = ''
    if exc is not None:
        why = 'decode raised %r' % (exc,)
    elif obj is None:
        why = 'decoder returned None'
    elif type(obj) is not A.expected_class(m):
        why = 'decoded to %s, registered class is %s' % (type(obj).__name__, A.expected_class(m).__name__)
    else:
        try:
            got = A.extract(obj)
        except Exception as e:  # noqa
            got, why = None, 'fields unreadable: %r' % (e,)
        if got is not None:
            if A.same(got, back):
                ok = True
            else:
                why = 'fields %r != wire fields %r' % (_short(got), _short(back))
    if ok:
        scribble(obj)
        return True
    if not known_decode(run, m, obj, exc, case):
        run.violation('decode:%s:%s' % (k, why.split(' ')[0] + (type(exc).__name__ if exc else '')), case,
                      'decoding %s: %s' % (pdu.hex()[:200], why))
    if obj is not None:
        scribble(obj)
    return False


def _diffsig(a, b):
    if len(a) != len(b):
        return 'len%+d' % (len(a) - len(b))
    d = [i for i in range(len(a)) if a[i] != b[i]]
    return 'pos%s' % (d[0] if d else '')


def _short(m):
    r = repr(m)
    return r if len(r) < 300 else r[:300] + '...'


def fp_of(op, m):
    """distinct = (op, kind, field values); non-trivial = any list non-empty or any field non-zero"""
    return h64((op, sorted((k, repr(v)) for k, v in m.items())))


def nontrivial(m):
    return any(v for k, v in m.items() if k not in ('dir', 'fc', 'sub'))


def both(run, m, sample_class=None):
    for op, fn in (('encode', check_encode), ('decode', check_decode)):
        res = fn(run, m)
        if res is None:
            continue
        regs = regions_of(m)
        for slug in regs:
            run.region(slug)
        if not regs:
            run.count('clean_region_cases')
        run.case(fp_of(op, m), nontrivial(m),
                 sample={'op': op, 'kind': kind_of(m), 'message': m, 'pdu': S.encode(m).hex()[:120],
                         'verdict': 'agrees' if res else 'differs'},
                 sample_class=(op, kind_of(m)) if sample_class is None else sample_class)


# ----------------------------------------------------------------- workload
WORD_FIELDS = {
    (REQ, 1): ['address', 'count'], (REQ, 2): ['address', 'count'], (REQ, 3): ['address', 'count'],
    (REQ, 4): ['address', 'count'], (REQ, 5): ['address'], (REQ, 6): ['address', 'value'],
    (RSP, 5): ['address'], (RSP, 6): ['address', 'value'], (RSP, 11): ['count'],
    (RSP, 12): ['event_count', 'message_count'], (REQ, 15): ['address'], (RSP, 15): ['address', 'count'],
    (REQ, 16): ['address'], (RSP, 16): ['address', 'count'],
    (REQ, 22): ['address', 'and_mask', 'or_mask'], (RSP, 22): ['address', 'and_mask', 'or_mask'],
    (REQ, 23): ['read_address', 'read_count', 'write_address'], (REQ, 24): ['address'],
}
LIST_FIELD = {(RSP, 1): 'bits', (RSP, 2): 'bits', (RSP, 3): 'registers', (RSP, 4): 'registers',
              (REQ, 15): 'bits', (REQ, 16): 'registers', (REQ, 23): 'registers', (RSP, 23): 'registers',
              (RSP, 24): 'values', (RSP, 12): 'events'}
LIST_MAX = {'bits': 2040, 'registers': 127, 'values': 124, 'events': 245}


def run(run):
    r = run.rng('main')
    run.rule = ('case = (direction of check, message kind, spec field values); encode cases compare '
                'fc+encode() of a constructed message with the spec PDU, decode cases feed the spec PDU to the '
                'server/client decoder and compare class and fields; distinct = distinct (op, kind, fields); '
                'non-trivial = at least one field non-zero / list non-empty')
    run.assumptions = ['spec codec vmon/spec/pdu.py (MODBUS Application Protocol v1.1b3, DESIGN Appendix A)',
                       'adapter table vmon/adapters.py (pymodbus attribute <-> spec field)']
    idx = 0
    # (0) dispatch: every function code / sub-function through both decoders
    custom_registration(run)
    if run.mine(0):
        dispatch(run)
    # (i) boundary sweep of the 16-bit fields
    for (d, fc), fields in sorted(WORD_FIELDS.items()):
        for f in fields:
            for v in gen.W:
                idx += 1
                if not run.mine(idx):
                    continue
                for _ in range(3):
                    m = gen.message(r, d, fc, small=True)
                    m[f] = v
                    both(run, m)
    # (ii) every list length from 0 to beyond the maximum
    for (d, fc), f in sorted(LIST_FIELD.items()):
        step = 1 if run.thorough else (17 if f == 'bits' else 3)
        n = 0
        while n <= LIST_MAX[f] + 2:
            idx += 1
            if run.mine(idx):
                m = gen.message(r, d, fc, small=True)
                m[f] = (gen.bits(r, n) if f == 'bits' else gen.blob(r, n) if f == 'events' else gen.regs(r, n))
                both(run, m)
            n += step if n > 24 else 1
    # (iii) seeded random fields for every kind
    per_kind = run.scale(1200, 100000)
    for k in gen.KINDS:
        d, fc, sub = k
        for i in range(per_kind):
            m = gen.message(r, d, fc, sub, beyond=(i % 4 == 0))
            if 'bits' in m and i % 5 == 2:
                m['bits'] = gen.truthy(r, m['bits'])          # ON / OFF given as integers (0xFF00, 1, 2 ... / 0), as applications do
            if d == RSP and fc == 43 and i % 2:
                m['conformity'] = r.choice([1, 2, 3, 0x81, 0x82, 0x83])
                m['more'] = r.choice([0, 0xFF])
                m['next'] = gen.byte(r)
            both(run, m)
    # (iii-b) device-identification responses built from objects that do not (or only just) fit one PDU:
    # what is encoded must still be a spec PDU of at most 253 bytes holding a prefix of the objects,
    # More Follows = 0xFF and Next Object Id = the first object left out (spec 6.21)
    if run.mine(1):
        devid_overflow(run, r)
    # (iv) exception layout: every function code x every code
    for fc in range(1, 128):
        if not run.mine(fc):
            continue
        for code in (range(256) if run.thorough else [0, 1, 2, 3, 4, 5, 6, 8, 10, 11, 0x7F, 0x80, 0xFF]):
            both(run, {'dir': RSP, 'fc': 0x80 | fc, 'code': code})
    # (v) thorough: each single 16-bit field exhaustively
    if run.thorough:
        for (d, fc), fields in sorted(WORD_FIELDS.items()):
            for f in fields:
                for v in range(0x10000):
                    idx += 1
                    if not run.mine(idx):
                        continue
                    m = gen.message(r, d, fc, small=True)
                    m[f] = v
                    both(run, m, sample_class=('sweep', d, fc, f))
        # all 65536 values of FC6 value and FC5 conformant values with all addresses
        run.exhaustive = False
    kinds = [gen.kind_name(k) if k[1] != 'exc' else 'rsp/exc' for k in gen.KINDS]
    enc_min = min((run.counters.get('enc:' + k, 0) for k in kinds if k not in ()), default=0)
    dec_min = min((run.counters.get('dec:' + k, 0) for k in kinds), default=0)
    per = 100 if run.shard is None else 5
    run.floor('min encode comparisons per message kind', enc_min, per)
    run.floor('min decode comparisons per message kind', dec_min, per)
    run.observed['kinds'] = len(kinds)


def devid_overflow(run, r):
    import pymodbus.mei_message as mm
    sizes = []
    for first in (0, 1, 50, 100, 120, 200, 243, 244, 245):
        for tot in range(240, 256):
            sizes.append((first, tot))
    for first, tot in sizes:
        # objects (id ascending) whose 2+len sizes add up to exactly tot
        lens, left, ids = [], tot, []
        if first + 2 <= left:
            lens.append(first)
            left -= first + 2
        while left >= 2:
            n = min(left - 2, r.choice([left - 2, r.randint(0, 60), 100]))
            if left - (n + 2) == 1:
                n -= 1 if n else 0
                if left - (n + 2) == 1:
                    break
            lens.append(n)
            left -= n + 2
        if sum(x + 2 for x in lens) != tot or any(x > 245 or x < 0 for x in lens):
            continue
        ids = sorted(r.sample(list(range(0, 7)) + list(range(0x80, 0x100)), len(lens)))
        objs = [(i, gen.blob(r, n)) for i, n in zip(ids, lens)]
        devid_one(run, {'op': 'devid-overflow', 'read_code': r.randint(1, 3), 'objects': objs})


def devid_one(run, case):
    import pymodbus.mei_message as mm
    objs = [(i, bytes(v)) for i, v in case['objects']]
    tot = sum(2 + len(v) for _, v in objs)
    run.count('devid_overflow_cases')
    msg = mm.ReadDeviceInformationResponse(case['read_code'], dict(objs))
    try:
        pdu = bytes([43]) + msg.encode()
    except Exception as e:  # noqa
        run.violation('devid-overflow:raised', case, 'encode raised %r' % (e,))
        return
    fit, used = [], 7
    for i, v in objs:
        if used + 2 + len(v) > 253:
            break
        fit.append((i, v))
        used += 2 + len(v)
    more = len(fit) < len(objs)
    want = S.encode({'dir': RSP, 'fc': 43, 'read_code': case['read_code'], 'conformity': 0x83, 'more': 0xFF if more else 0,
                     'next': objs[len(fit)][0] if more else 0, 'objects': fit})
    ok = pdu == want
    run.case(h64(('devid-overflow', repr(case))), True,
             sample={'op': 'encode', 'kind': 'rsp/43 objects of %d bytes in total' % tot, 'pdu_len': len(pdu), 'objects_sent': len(fit), 'of': len(objs),
                     'verdict': 'agrees' if ok else 'differs'}, sample_class=('devid-overflow', more))
    if not ok:
        run.violation('devid-overflow:%s' % ('too-long' if len(pdu) > 253 else 'content'), case,
                      'objects of %d bytes in total: encoded a %d-byte PDU %s..., the spec page is %d bytes %s...' % (tot, len(pdu), pdu[:12].hex(), len(want), want[:12].hex()))


def dispatch(run):
    """class identity for every fc in both decoders' lookup, and sub-function re-classing"""
    for (d, fc), cls in A.CLASS.items():
        got = decoder(d).lookupPduClass(fc)
        run.count('dispatch_checks')
        if got is not cls:
            run.violation('dispatch:%s/%d' % (d, fc), {'op': 'dispatch', 'dir': d, 'fc': fc},
                          'lookupPduClass(%d) is %s, expected %s' % (fc, got.__name__, cls.__name__))
    for d in (REQ, RSP):
        for fc in range(256):
            if fc in S.SUPPORTED or (d == RSP and fc > 0x80):
                continue
            run.count('dispatch_checks')
            got = decoder(d).lookupPduClass(fc)
            if got is not pp.ExceptionResponse:
                run.violation('dispatch-unsupported:%s/%d' % (d, fc), {'op': 'dispatch', 'dir': d, 'fc': fc},
                              'unsupported fc %d maps to %s' % (fc, got))


def custom_registration(run):
    """The documented extension point: decoder.register(cls) / custom_functions.  A class registered on ONE decoder object
    (a new function code, an additional diagnostic sub-function, an override of a standard code) must decode on that decoder,
    must leave every other standard PDU on that decoder alone, and must not exist for any other decoder object - created before
    or after.  (Runs first: a registration that leaks into shared tables also shows in everything decoded later in this run.)"""
    import struct as _st
    import pymodbus.diag_message as dm

    def mk(base, fc, sub=None):
        if sub is not None:
            # an additional diagnostic sub-function: everything but the code is inherited from the library's base class
            return type('Custom%s_%04x' % (base.__name__, sub), (base,), {'sub_function_code': sub})
        ns = {'function_code': fc, '_rtu_frame_size': 8, 'encode': lambda self: b'', 'decode': lambda self, data: None,
              '__init__': lambda self, *a, **k: base.__init__(self, **k)}
        return type('Custom%s_%02x' % (base.__name__, fc), (base,), ns)
    for d, Dec, Base, DiagBase in ((REQ, ServerDecoder, pp.ModbusRequest, dm.DiagnosticStatusRequest), (RSP, ClientDecoder, pp.ModbusResponse, dm.DiagnosticStatusResponse)):
        before = Dec()
        dec = Dec()
        new_fc = mk(Base, 0x45)
        new_sub = mk(DiagBase, 8, 0x0042)
        override = mk(Base, 3)
        override_sub = mk(DiagBase, 8, 0x000B)            # a vendor's own version of a standard sub-function
        case = {'op': 'custom-registration', 'dir': d}
        try:
            for c in (new_fc, new_sub, override, override_sub):
                dec.register(c)
        except Exception as e:  # noqa
            run.violation('register:raised:%s' % d, case, 'register() raised %r' % (e,))
            continue
        after = Dec()
        run.count('registration_checks')
        probs = []
        # on the decoder that got the registrations
        if dec.lookupPduClass(0x45) is not new_fc:
            probs.append('registered function code 0x45 is not found on its decoder')
        if dec.lookupPduClass(3) is not override:
            probs.append('the class registered for function code 3 does not override the standard one on its decoder')
        for (dd, fc), cls in A.CLASS.items():
            if dd == d and fc not in (3, 0x45) and dec.lookupPduClass(fc) is not cls:
                probs.append('after register(), function code %d on the same decoder maps to %s' % (fc, dec.lookupPduClass(fc)))
        table = A.DIAG_REQ if d == REQ else A.DIAG_RSP
        for sub, cls in sorted(table.items()):
            pdu = bytes([8]) + _st.pack('>HH', sub, 0)
            for which, dx in (('the decoder that registered a custom sub-function', dec), ('a decoder created before', before), ('a decoder created afterwards', after)):
                try:
                    o = dx.decode(pdu)
                except Exception as e:  # noqa
                    o = e
                if type(o) is not (override_sub if (dx is dec and sub == 0x000B) else cls):
                    probs.append('diagnostic sub-function %#06x decodes to %s on %s' % (sub, type(o).__name__, which))
        try:
            o = dec.decode(bytes([8]) + _st.pack('>HH', 0x0042, 0))
            if type(o) is not new_sub:
                probs.append('the registered diagnostic sub-function 0x0042 decodes to %s' % type(o).__name__)
        except Exception as e:  # noqa
            probs.append('decoding the registered sub-function raised %r' % (e,))
        # on other decoder objects
        for which, dx in (('created before', before), ('created afterwards', after), ('the shared module-level one', decoder(d))):
            if dx.lookupPduClass(0x45) is new_fc:
                probs.append('a class registered on one decoder is known to a decoder %s' % which)
            try:
                o = dx.decode(bytes([8]) + _st.pack('>HH', 0x0042, 0))
            except Exception as e:  # noqa
                o = e
            if type(o) is new_sub:
                probs.append('a diagnostic sub-function registered on one decoder is known to a decoder %s' % which)
            for (dd, fc), cls in A.CLASS.items():
                if dd == d and dx.lookupPduClass(fc) is not cls:
                    probs.append('function code %d on a decoder %s maps to %s' % (fc, which, dx.lookupPduClass(fc).__name__))
        run.case(h64(('custom-registration', d)), True, sample={'op': 'custom registration', 'dir': d, 'verdict': 'isolated' if not probs else probs[:3]},
                 sample_class=('custom-registration', d))
        if probs:
            run.violation('register:%s' % d, case, '; '.join(probs[:6]))


def replay(run, case):
    if case.get('op') == 'custom-registration':
        custom_registration(run)
        run.evaluations += 1
        return
    if case.get('op') == 'dispatch':
        dispatch(run)
        run.evaluations += 1
        return
    if case.get('op') == 'devid-overflow':
        devid_one(run, case)
        return
    m = case['m']
    if 'records' in m:
        m['records'] = [tuple(x) if isinstance(x, list) else x for x in m['records']]
    if 'objects' in m:
        m['objects'] = [tuple(x) for x in m['objects']]
    if case['op'] == 'reassign':
        prev = case['prev']
        for mm in (prev,):
            if 'records' in mm:
                mm['records'] = [tuple(x) if isinstance(x, list) else x for x in mm['records']]
            if 'objects' in mm:
                mm['objects'] = [tuple(x) for x in mm['objects']]
        _PREV[kind_of(m)] = prev
        print('encode agrees' if check_encode(run, m) else 'encode differs / not comparable')
        run.evaluations += 1
        return
    if case['op'] == 'encode':
        print('encode agrees' if check_encode(run, m) else 'encode differs / not comparable')
    else:
        print('decode agrees' if check_decode(run, m) else 'decode differs / not comparable')
    run.evaluations += 1
