"""C04 - server executes data-access requests as a Modbus register file.

The register-file model (vmon/spec/regfile.py) runs in lock-step with the real server code
over request histories; compared after every request: the response PDU; after every request
(direct path) / at the end (front-end paths): the full dump of all four tables.
Entry paths: ServerDecoder -> execute(context) directly; bytes -> framer -> sync handlers for
the TCP/RTU/ASCII/binary framings; asyncio and Twisted TCP handlers."""
from .. import adapters as A  # noqa: F401
from .. import gen
from .. import frontends as FE
from .. import servermodel as SM
from .. import repo
from ..core import h64
from ..spec import pdu as S
from ..spec import adu as ADU
from ..spec.pdu import REQ, RSP

from pymodbus.factory import ServerDecoder

LEVEL = 'exploration'
SHARDS = {'thorough': 16}
ANCHORS = ['pymodbus/bit_read_message.py', 'pymodbus/bit_write_message.py', 'pymodbus/register_read_message.py',
           'pymodbus/register_write_message.py', 'pymodbus/datastore/store.py', 'pymodbus/datastore/context.py',
           'pymodbus/interfaces.py', 'pymodbus/server/sync.py', 'pymodbus/server/async_io.py', 'pymodbus/server/asynchronous.py']
SD = ServerDecoder()
PATHS = [('direct', None), ('sync-tcp', 'tcp'), ('sync-serial', 'rtu'), ('sync-serial', 'ascii'), ('sync-serial', 'binary'),
         ('sync-serial', 'tcp'), ('aio-tcp', 'tcp'), ('tw-tcp', 'tcp'), ('sync-udp', 'tcp'), ('aio-udp', 'tcp')]


def layout_addresses(lay, zero):
    """PDU addresses worth aiming at: around every block boundary"""
    off = 0 if zero else 1
    out = {}
    for t in SM.TABLES:
        src = lay['alias'].get(t, t)
        cells = sorted(a - off for a in SM.block_cells(lay[src]) if 0 <= a - off <= 0xFFFF) or [0]
        lo, hi = cells[0], cells[-1]
        out[t] = (lo, hi, cells)
    return out


def gen_history(r, layout, n, uniq):
    """valid-biased requests FC 1-6,15,16,22,23 aimed at the layout; written values are unique-ish"""
    uid = next(iter(layout['units']))
    lay = layout['units'][uid]
    addrs = layout_addresses(lay, layout['zero_mode'])
    from ..spec.regfile import TABLE_OF_FC
    hist = []
    for _ in range(n):
        fc = r.choice(gen.DATA_FCS)
        lo, hi, cells = addrs[TABLE_OF_FC[fc]]
        x = r.random()
        if x < 0.7:
            a = r.choice(cells)
        elif x < 0.9:
            a = min(0xFFFF, max(0, r.choice([lo - 1, lo, hi, hi + 1, hi - 1])))
        else:
            a = r.randrange(0, 65536)
        span = max(1, hi - a + 1)
        q = r.choice([1, 1, 2, 3, 4, 5, 6, 7, min(span, 8), span, span + 1]) if r.random() < 0.85 else r.randint(1, 30)
        q = max(1, min(q, 120))
        m = {'dir': REQ, 'fc': fc}
        if fc in (1, 2, 3, 4):
            m['address'], m['count'] = a, q
        elif fc == 5:
            m['address'], m['value'] = a, r.choice([0, 0xFF00])
        elif fc == 6:
            uniq[0] += 1
            m['address'], m['value'] = a, uniq[0] & 0xFFFF
        elif fc == 15:
            m['address'], m['bits'] = a, gen.bits(r, q)
        elif fc == 16:
            m['address'], m['registers'] = a, [(uniq[0] + j + 1) & 0xFFFF for j in range(q)]
            uniq[0] += q
        elif fc == 22:
            m['address'], m['and_mask'], m['or_mask'] = a, gen.word(r), gen.word(r)
        elif fc == 23:
            wlo, whi, wcells = addrs['h']
            wa = r.choice(wcells) if r.random() < 0.8 else min(0xFFFF, max(0, whi + r.choice([0, 1])))
            wq = max(1, min(r.choice([1, 2, 3, max(1, whi - wa + 1)]), 100))
            m['read_address'], m['read_count'], m['write_address'] = a, q, wa
            m['registers'] = [(uniq[0] + j + 1) & 0xFFFF for j in range(wq)]
            uniq[0] += wq
        hist.append(m)
    return hist


def _san(w):
    """replace delimiter bytes inside a 16-bit word"""
    hi, lo = w >> 8, w & 0xFF
    hi = hi - 1 if hi in (0x7B, 0x7D) else hi
    lo = lo - 1 if lo in (0x7B, 0x7D) else lo
    return (hi << 8) | lo


def make_frame(framing, uid, m, tid, r=None):
    """request frame by the reference builder; for the binary framing the message is nudged until the frame holds no
    delimiter byte (the binary framer cannot receive such frames: finding binary-delimiter-in-body).  Returns (m, None)
    with m unchanged when that is impossible (e.g. the unit id itself is a delimiter)."""
    f = ADU.build(framing, uid, S.encode(m), tid=tid)
    if framing != 'binary' or not any(b in (0x7B, 0x7D) for b in f[1:-1]):
        return m, f
    orig = m
    if uid in (0x7B, 0x7D) or m['fc'] in (0x7B, 0x7D):
        return orig, None
    m = dict(m)
    for step in range(300):
        for k in ('address', 'value', 'count', 'and_mask', 'or_mask', 'read_address', 'read_count', 'write_address'):
            if k in m and isinstance(m[k], int) and not (k == 'value' and m['fc'] == 5):
                m[k] = _san(m[k])
        if 'registers' in m:
            m['registers'] = [_san(x) for x in m['registers']]
        if 'data' in m:
            m['data'] = [_san(x) for x in m['data']]
        f = ADU.build(framing, uid, S.encode(m), tid=tid)
        if not any(b in (0x7B, 0x7D) for b in f[1:-1]):
            return m, f
        # only the CRC (or a byte count) still holds a delimiter: nudge one free field
        if 'or_mask' in m:
            m['or_mask'] = (m['or_mask'] + 1) & 0xFFFF
        elif m['fc'] == 6:
            m['value'] = (m['value'] + 1) & 0xFFFF
        elif 'registers' in m and m['registers']:
            m['registers'] = m['registers'][:-1] + [(m['registers'][-1] + 1) & 0xFFFF]
        elif 'data' in m and m['data']:
            m['data'] = m['data'][:-1] + [(m['data'][-1] + 1) & 0xFFFF]
        elif 'bits' in m:
            m['bits'] = [not m['bits'][0]] + list(m['bits'][1:]) if step % 2 else list(m['bits']) + [True]
        elif 'count' in m:
            m['count'] = m['count'] % 100 + 1
        elif 'read_count' in m:
            m['read_count'] = m['read_count'] % 100 + 1
        elif 'address' in m:
            m['address'] = (m['address'] + 1) & 0xFFFF
        else:
            return orig, None
    return orig, None


def check_direct(run, case):
    layout, hist = case['layout'], case['history']
    ctx, model, blocks = SM.build(layout)
    uid = int(next(iter(layout['units'])))
    slave = ctx[uid]
    tgt = model.target(uid)
    small = sum(len(v) for v in model.dump()[uid].values()) <= 400
    for i, m in enumerate(hist):
        if case.get('reset_at') == i:
            slave.reset()               # the application resets its datastore in the middle of the history
            tgt.reset()
            run.count('context_resets')
        want = S.encode(tgt.execute(m))
        run.count('responses_compared')
        try:
            req = SD.decode(S.encode(m))
            rsp = req.execute(slave)
            got = bytes([rsp.function_code]) + rsp.encode()
        except Exception as e:  # noqa
            run.violation('direct:raised:fc%d:%s' % (m['fc'], type(e).__name__), case, 'request %d %r raised %r' % (i, m, e))
            return False
        if got != want:
            if not classify(run, m, got, want, case):
                run.violation('direct:response:fc%d:%s' % (m['fc'], _sig(got, want)), case, 'request %d %r: response %s, model %s' % (i, _sh(m), got.hex()[:80], want.hex()[:80]))
            return False
        if want[0] < 0x80:
            run.count('normal:fc%d' % m['fc'])
        if small or i % 8 == 7 or i == len(hist) - 1:
            run.count('full_dumps')
            d1, d2 = SM.norm_dump(SM.dump(blocks, layout['zero_mode'])), model.dump()
            if d1 != d2:
                if not classify(run, m, got, want, case, store=True):
                    run.violation('direct:store:fc%d' % m['fc'], case, 'after request %d %r the store differs from the model: %s' % (i, _sh(m), _diff(d1, d2)))
                return False
    return True


def check_front(run, case, front, framing):
    layout, hist = case['layout'], case['history']
    ctx, model, blocks = SM.build(layout)
    uid = int(next(iter(layout['units'])))
    tgt = model.target(uid)
    reads, msgs = [], []
    for i, m in enumerate(hist):
        m2, f = make_frame(framing, uid, m, tid=(i * 257 + 1) & 0xFFFF)
        if f is None:
            continue
        reads.append(f)
        msgs.append(m2)
    repo.reset_globals()
    res = FE.feed(front, framing, ctx, reads)
    tag = '%s/%s' % (front, framing)
    if res.escaped or res.stuck:
        run.violation('%s:escaped' % tag, case, 'front-end %s escaped %r stuck=%s' % (tag, res.escaped[:2], res.stuck))
        return False
    for i, m in enumerate(msgs):
        want_pdu = S.encode(tgt.execute(m))
        want = ADU.build(framing, uid, want_pdu, tid=(i * 257 + 1) & 0xFFFF)
        got = res.per_read[i] if i < len(res.per_read) else None
        run.count('responses_compared')
        if got != want:
            gp = _pdu_of(framing, got)
            if gp is not None and gp != want_pdu and classify(run, m, gp, want_pdu, case):
                return False
            if framing == 'binary' and got is not None and _binary_equiv(got, want, uid, want_pdu):
                continue
            run.violation('%s:response:fc%d' % (tag, m['fc']), case, 'request %d %r via %s: sent %s, model %s' % (i, _sh(m), tag, (got or b'').hex()[:80], want.hex()[:80]))
            return False
        if want_pdu[0] < 0x80:
            run.count('normal:fc%d' % m['fc'])
    run.count('full_dumps')
    d1, d2 = SM.norm_dump(SM.dump(blocks, layout['zero_mode'])), model.dump()
    if d1 != d2:
        run.violation('%s:store' % tag, case, 'after the history via %s the store differs from the model: %s' % (tag, _diff(d1, d2)))
        return False
    return True


def _binary_equiv(got, want, uid, pdu):
    return ADU.binary_build_ok(got, uid, pdu)


def _pdu_of(framing, frame):
    if not frame:
        return None
    frames, pos, err = ADU.parse_stream(framing, RSP, frame)
    if err is None and len(frames) == 1 and pos == len(frame):
        return bytes(frames[0].pdu)
    return None


def classify(run, m, got, want, case, store=False):
    """known findings of the execute path (none listed for C04 at present)"""
    return False


def _sig(a, b):
    if a[:1] != b[:1]:
        return 'fc-byte'
    if len(a) != len(b):
        return 'length'
    return 'content'


def _sh(m):
    r = repr(m)
    return r if len(r) < 200 else r[:200] + '...'


def _diff(d1, d2):
    out = []
    for u in d1:
        for t in d1[u]:
            a, b = d1[u][t], d2.get(u, {}).get(t, {})
            if a != b:
                ks = sorted(set(a) | set(b))
                bad = [(k, a.get(k), b.get(k)) for k in ks if a.get(k) != b.get(k)][:4]
                out.append('unit %s table %s: (addr, real, model) %r' % (u, t, bad))
    return '; '.join(out[:3])


def gen_layout(r, i):
    share = (i % 5 == 0)
    layout = {'single': True, 'zero_mode': bool(i % 2), 'units': {1: SM.unit_layout(r, share=share, small=(i % 7 != 0))}}
    if i % 6 == 3:
        # an application that builds all its tables from one `init` list (equal initial values, one caller-side list object)
        start, n = r.choice([0, 1, 3]), r.choice([8, 16, 32])
        layout['units'][1] = {'c': {'type': 'seq', 'start': start, 'values': [False] * n}, 'd': {'type': 'seq', 'start': start, 'values': [False] * n},
                              'i': {'type': 'seq', 'start': start, 'values': [0] * n}, 'h': {'type': 'seq', 'start': start, 'values': [0] * n}, 'alias': {}}
        layout['share_init_lists'] = True
    if i % 6 == 5:
        # initial cells of another type than the table's usual one (bool vs int are interchangeable in Python): register tables
        # initialised from [False] * n, bit tables from [0] * n - what is written afterwards must still be stored as written
        start, n = r.choice([0, 1, 3]), r.choice([8, 16, 40])
        layout['units'][1] = {'c': {'type': 'seq', 'start': start, 'values': [r.choice([0, 0, 0xFF00, 2]) for _ in range(n)]},
                              'd': {'type': 'seq', 'start': start, 'values': [r.choice([0, 1, 0x10, 0xFF00, 4]) for _ in range(n)]},
                              'i': {'type': 'seq', 'start': start, 'values': [False] * n}, 'h': {'type': 'seq', 'start': start, 'values': [False] * n}, 'alias': {}}
    if i % 6 == 4:
        layout['via_defaults'] = True          # addressing mode configured through the process-wide Defaults.ZeroMode
        layout['zero_mode'] = bool(i % 4 != 2)
    if i % 12 == 2:
        layout['defaults_opposite'] = True     # Defaults.ZeroMode says the opposite of the explicit zero_mode= keyword
    if i % 12 in (7, 9):
        layout['zero_style'] = ('int', 'late')[i % 12 == 9]     # zero_mode=1 / 0 (an integer from a configuration file); the attribute set after construction
    return layout


def run(run):
    r = run.rng('main')
    run.rule = ('case = (datastore layout: sequential/sparse blocks, zero-mode, like tables shared or separate; history of 1..60 requests FC1-6,15,16,22,23; entry path); '
                'response compared after every request, full store dump after every request (direct path, small layouts) or at the end; '
                'distinct = (layout, history, path); non-trivial = history contains a write followed by a read')
    run.assumptions = ['register-file model vmon/spec/regfile.py', 'spec codec, reference ADU builder', 'sharing only between like tables']
    n = run.scale(1500, 300000)
    uniq = [0]
    for i in range(n):
        layout = gen_layout(r, i)
        hist = gen_history(r, layout, r.choice([1, 5, 20, 40, 60]), uniq)
        front, framing = PATHS[i % len(PATHS)] if i % 3 else PATHS[0]
        case = {'layout': layout, 'history': hist, 'front': front, 'framing': framing}
        if front == 'direct' and len(hist) >= 5 and i % 4 == 1:
            case['reset_at'] = len(hist) // 2
        ok = check_direct(run, case) if front == 'direct' else check_front(run, case, front, framing)
        run.count('path:%s/%s' % (front, framing))
        nontriv = any(m['fc'] in (5, 6, 15, 16, 22, 23) for m in hist) and any(m['fc'] in (1, 2, 3, 4, 23) for m in hist)
        run.case(h64(repr(case)), nontriv,
                 sample={'zero_mode': layout['zero_mode'], 'tables': {t: (layout['units'][1][t]['type']) for t in SM.TABLES}, 'alias': layout['units'][1]['alias'],
                         'path': '%s/%s' % (front, framing), 'history': hist[:4], 'requests': len(hist), 'verdict': 'agrees' if ok else 'differs'},
                 sample_class=(front, framing))
    # large layouts: full 65536-cell tables, high addresses
    for i in range(run.scale(6, 320)):
        z = bool(i % 2)
        layout = {'single': True, 'zero_mode': z, 'units': {1: {'c': SM.big_block_spec(True, z), 'd': SM.big_block_spec(True, z),
                                                                 'i': SM.big_block_spec(False, z), 'h': SM.big_block_spec(False, z), 'alias': {}}}}
        hist = []
        for _ in range(25):
            m = gen.data_request(r, address_hint=r.choice([0, 1, 65535, 65534, 65000, r.randrange(65536)]), maxq=r.choice([3, 125]))
            hist.append(m)
        case = {'layout': {'single': True, 'zero_mode': layout['zero_mode'], 'units': 'full-65536'}, 'history': hist, 'front': 'direct', 'framing': None}
        ok = check_direct(run, dict(case, layout=layout))
        run.case(h64(repr(case)), True, sample=dict(case, history=hist[:3], verdict='agrees' if ok else 'differs'), sample_class='big')
    # contexts that rely on the default blocks for some tables (ModbusSlaveContext() / only some tables passed)
    for i in range(run.scale(10, 640)):
        z = bool(i % 2)
        defaulted = [t for t in SM.TABLES if (i >> SM.TABLES.index(t)) & 1] or list(SM.TABLES)
        lay = {'alias': {}, 'defaulted': defaulted}
        for t in SM.TABLES:
            lay[t] = {'type': 'seq', 'start': 0, 'values': [0] * 65536} if t in defaulted else SM.block_spec(r, t in 'cd', small=True)
        layout = {'single': True, 'zero_mode': z, 'units': {1: lay}}
        hist = []
        for _ in range(14):
            a = r.choice([0, 1, 2, 7, 100])
            m = gen.data_request(r, address_hint=a, maxq=3)
            if m['fc'] == 23:
                m['write_address'] = a
            hist.append(m)
        case = {'layout': {'single': True, 'zero_mode': z, 'units': 'defaulted tables %s' % ''.join(defaulted)}, 'history': hist, 'front': 'direct', 'framing': None}
        ok = check_direct(run, dict(case, layout=layout))
        run.count('defaulted_table_histories')
        run.case(h64(repr(case)), True, sample=dict(case, history=hist[:3], verdict='agrees' if ok else 'differs'), sample_class='defaulted')
    fcs = [1, 2, 3, 4, 5, 6, 15, 16, 22, 23]
    run.floor('normal responses compared per function code (min)', min(run.counters.get('normal:fc%d' % f, 0) for f in fcs), 500 if run.shard is None else 30)
    run.floor('full store dumps compared', run.counters.get('full_dumps', 0), 1000 if run.shard is None else 60)
    repo.reset_globals()


def replay(run, case):
    lay = case['layout']
    lay['units'] = {int(k): v for k, v in lay['units'].items()}
    if case['front'] == 'direct':
        print('agrees' if check_direct(run, case) else 'differs')
    else:
        print('agrees' if check_front(run, case, case['front'], case['framing']) else 'differs')
    run.evaluations += 1
