"""icontract contracts attached from the harness to real pymodbus functions.

Conditions *record* and return True (a raising contract would abort what it observes);
evaluation counters are kept per class so that zero evaluations can be reported as
inconclusive (a reference bound before decoration bypasses the contract)."""
from . import deps
deps.ensure()
deps.activate()
import icontract  # noqa: E402

from . import adapters as A  # noqa: E402
from .spec import pdu as S  # noqa: E402

_EVALS = {}
_FIRED = {}
_INSTALLED = set()


class PurityBroken(Exception):
    pass


def _public(self):
    try:
        return S.norm(A.extract(self))
    except Exception as e:  # noqa
        return ('unreadable', type(e).__name__)


def fields_of_self(self):
    return _public(self)


def fields_unchanged(self, OLD):
    name = type(self).__name__
    _EVALS[name] = _EVALS.get(name, 0) + 1
    now = _public(self)
    if now != OLD.fields:
        _FIRED.setdefault(name, []).append('%r -> %r' % (OLD.fields, now))
    return True


def install_purity(recorder=None):
    """Decorate encode() of every message class (own definition only)."""
    n = 0
    seen = set()
    todo = list(A.all_message_classes())
    while todo:
        cls = todo.pop()
        if cls in seen:
            continue
        seen.add(cls)
        todo.extend(b for b in cls.__mro__[1:] if b.__module__.startswith('pymodbus.') and b.__name__ not in ('ModbusPDU', 'ModbusRequest', 'ModbusResponse'))
        if 'encode' in cls.__dict__ and (cls, 'encode') not in _INSTALLED:
            fn = cls.__dict__['encode']
            wrapped = icontract.snapshot(fields_of_self, name='fields')(
                icontract.ensure(fields_unchanged, error=PurityBroken)(fn))
            setattr(cls, 'encode', wrapped)
            _INSTALLED.add((cls, 'encode'))
            n += 1
    return len(_INSTALLED)


def purity_stats():
    classes = sorted(c.__name__ for c in A.all_message_classes())
    zero = [c for c in classes if _EVALS.get(c, 0) == 0]
    return {'evaluations_total': sum(_EVALS.values()),
            'per_class': dict(_EVALS),
            'min_per_class': min((_EVALS.get(c, 0) for c in classes), default=0),
            'zero_classes': zero,
            'fired': {k: v[:5] for k, v in _FIRED.items()}}
