"""icontract contracts attached from the harness to real pymodbus functions.

Conditions *record* and return True (a raising contract would abort what it observes);
evaluation counters are kept per class so that zero evaluations can be reported as
inconclusive (a reference bound before decoration bypasses the contract)."""
from . import deps
deps.ensure()
deps.activate()
import icontract  # noqa: E402

from . import adapters as A  # noqa: E402
from .spec import pdu as S  # noqa: E402

_EVALS = {}
_FIRED = {}
_INSTALLED = set()


class PurityBroken(Exception):
    pass


def _public(self):
    try:
        m = A.extract(self)
        if m.get('fc') == 43 and m.get('dir') == 'rsp':
            # more-follows / next-object-id are the paging result that encode() is specified to compute (C20); they are
            # outputs of encode, not inputs: byte-identity of repeated encodes is judged by the history monitor instead
            m.pop('more', None)
            m.pop('next', None)
        return S.norm(m)
    except Exception as e:  # noqa
        return ('unreadable', type(e).__name__)


def fields_of_self(self):
    return _public(self)


def fields_unchanged(self, OLD):
    name = type(self).__name__
    _EVALS[name] = _EVALS.get(name, 0) + 1
    now = _public(self)
    if now != OLD.fields:
        _FIRED.setdefault(name, []).append('%r -> %r' % (OLD.fields, now))
    return True


def install_purity(recorder=None):
    """Decorate encode() of every message class (own definition only)."""
    n = 0
    seen = set()
    todo = list(A.all_message_classes())
    while todo:
        cls = todo.pop()
        if cls in seen:
            continue
        seen.add(cls)
        todo.extend(b for b in cls.__mro__[1:] if b.__module__.startswith('pymodbus.') and b.__name__ not in ('ModbusPDU', 'ModbusRequest', 'ModbusResponse'))
        if 'encode' in cls.__dict__ and (cls, 'encode') not in _INSTALLED:
            fn = cls.__dict__['encode']
            wrapped = icontract.snapshot(fields_of_self, name='fields')(
                icontract.ensure(fields_unchanged, error=PurityBroken)(fn))
            setattr(cls, 'encode', wrapped)
            _INSTALLED.add((cls, 'encode'))
            n += 1
    return len(_INSTALLED)


def purity_stats():
    classes = sorted(c.__name__ for c in A.all_message_classes())
    zero = [c for c in classes if _EVALS.get(c, 0) == 0]
    return {'evaluations_total': sum(_EVALS.values()),
            'per_class': dict(_EVALS),
            'min_per_class': min((_EVALS.get(c, 0) for c in classes), default=0),
            'zero_classes': zero,
            'fired': {k: v[:5] for k, v in _FIRED.items()}}


# ---------------------------------------------------------------- datastore frame conditions (C18)
_DS_EVALS = {}
_DS_FIRED = {}


class FrameBroken(Exception):
    pass


def _cells(self):
    try:
        return dict(iter(self))
    except Exception as e:  # noqa
        return {'unreadable': type(e).__name__}


def cells_before(self, address, values):
    acc = False
    try:
        n = len(values) if isinstance(values, list) else (None if isinstance(values, dict) else 1)
        acc = n is not None and n >= 1 and bool(self.validate(address, n))
    except Exception:  # noqa
        n = None
    return (_cells(self), acc, n)


def set_frame_condition(self, address, values, OLD):
    name = type(self).__name__ + '.setValues'
    before, accepted, n = OLD.cells
    if not accepted:
        return True
    _DS_EVALS[name] = _DS_EVALS.get(name, 0) + 1
    now = _cells(self)
    vals = values if isinstance(values, list) else [values]
    bad = None
    if set(now) != set(before):
        bad = 'extent changed: %d -> %d cells' % (len(before), len(now))
    else:
        for k in now:
            if address <= k < address + n:
                if now[k] != vals[k - address]:
                    bad = 'cell %d holds %r after writing %r' % (k, now[k], vals[k - address])
                    break
            elif now[k] != before[k]:
                bad = 'cell %d outside [%d,%d) changed %r -> %r' % (k, address, address + n, before[k], now[k])
                break
    if bad:
        _DS_FIRED.setdefault(name, []).append('setValues(%d, %d values): %s' % (address, n, bad))
    return True


def get_length_condition(self, address, count, result):
    name = type(self).__name__ + '.getValues'
    try:
        acc = count >= 1 and bool(self.validate(address, count))
    except Exception:  # noqa
        acc = False
    if not acc:
        return True
    _DS_EVALS[name] = _DS_EVALS.get(name, 0) + 1
    if len(result) != count:
        _DS_FIRED.setdefault(name, []).append('getValues(%d,%d) returned %d values' % (address, count, len(result)))
    return True


def install_datastore():
    from pymodbus.datastore.store import ModbusSequentialDataBlock, ModbusSparseDataBlock
    for cls in (ModbusSequentialDataBlock, ModbusSparseDataBlock):
        if (cls, 'ds') in _INSTALLED:
            continue
        cls.setValues = icontract.snapshot(cells_before, name='cells')(
            icontract.ensure(set_frame_condition, error=FrameBroken)(cls.__dict__['setValues']))
        cls.getValues = icontract.ensure(get_length_condition, error=FrameBroken)(cls.__dict__['getValues'])
        _INSTALLED.add((cls, 'ds'))


def datastore_stats():
    return {'evaluations': dict(_DS_EVALS), 'evaluations_total': sum(_DS_EVALS.values()),
            'fired': {k: v[:5] for k, v in _DS_FIRED.items()}}
