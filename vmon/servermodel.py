"""Layouts -> (real pymodbus server context, reference multi-unit model), store dumps, and the
expected reaction of a conformant server to one request frame."""
from . import repo  # noqa: F401
from .spec.regfile import RegFile, DATA_FCS
from .spec.pdu import REQ, RSP

from pymodbus.datastore import (ModbusSequentialDataBlock, ModbusSparseDataBlock, ModbusSlaveContext,
                                ModbusServerContext)

TABLES = 'cdih'
CTORS = [None, None, None, 'tuple', 'iter', 'gen', 'map']


def block_spec(r, boolean, small=True):
    """random block layout in *block* addresses"""
    if r.random() < 0.6:
        start = r.choice([0, 1, 1, 2, 7, 50]) if small else r.choice([0, 1, 7, 65000])
        size = r.choice([1, 2, 8, 16, 40, 64]) if small else r.choice([1, 64, 536, 2000])
        size = min(size, 65536 - start)      # blocks stay inside the 16-bit address space
        vals = [(r.random() < 0.5) if boolean else r.randrange(65536) for _ in range(size)]
        spec = {'type': 'seq', 'start': start, 'values': vals}
        how = r.choice(CTORS)
        if how:
            spec['ctor'] = how       # handed to the constructor as a tuple / one-shot iterable
        return spec
    base = r.choice([0, 1, 5, 40])
    keys = sorted(set(base + r.randrange(0, 40) for _ in range(r.randint(1, 24))))
    if r.random() < 0.5:
        r.shuffle(keys)
    return {'type': 'sparse', 'cells': {k: ((r.random() < 0.5) if boolean else r.randrange(65536)) for k in keys}}


def big_block_spec(boolean, zero_mode=True):
    """exactly the 65536 cells PDU addresses 0..65535 reach"""
    return {'type': 'seq', 'start': 0 if zero_mode else 1, 'values': [False if boolean else 0] * 65536}


def unit_layout(r, share=False, small=True):
    lay = {'c': block_spec(r, True, small), 'd': block_spec(r, True, small),
           'i': block_spec(r, False, small), 'h': block_spec(r, False, small), 'alias': {}}
    if share:
        if r.random() < 0.5:
            lay['alias']['d'] = 'c'
        if r.random() < 0.5:
            lay['alias']['i'] = 'h'
    return lay


def via_ctor(vals, how):
    """the initial values of a sequential block as the application may hand them over: a list, a tuple, or something that can be
    walked once only (generator expression, iterator, map object)"""
    if how == 'tuple':
        return tuple(vals)
    if how == 'iter':
        return iter(list(vals))
    if how == 'gen':
        return (v for v in list(vals))
    if how == 'map':
        return map(lambda v: v, list(vals))
    return vals


def make_block(spec, pool=None):
    """pool: {tuple(values): list} - when given, blocks with equal initial values are constructed from ONE caller-side list
    object (an application that writes `init = [0] * 32` once and builds several blocks from it)"""
    if spec['type'] == 'seq':
        vals = list(spec['values'])
        if pool is not None:
            vals = pool.setdefault((type(vals[0]).__name__ if vals else '', tuple(vals)), vals)
        return ModbusSequentialDataBlock(spec['start'], via_ctor(vals, spec.get('ctor')) if pool is None else vals)
    return ModbusSparseDataBlock({int(k): v for k, v in spec['cells'].items()})


def block_cells(spec):
    if spec['type'] == 'seq':
        return {spec['start'] + i: v for i, v in enumerate(spec['values'])}
    return {int(k): v for k, v in spec['cells'].items()}


def make_unit(lay, zero, pool=None, via_defaults=False, defaults_opposite=False, zero_style=None):
    """one unit of a layout -> (ModbusSlaveContext, {table: block}, RegFile)
    via_defaults: the addressing mode is configured through the process-wide Defaults.ZeroMode instead of the keyword"""
    off = 0 if zero else 1
    bl = {}
    defaulted = lay.get('defaulted', [])
    for t in TABLES:
        if t not in lay['alias'] and t not in defaulted:
            bl[t] = make_block(lay[t], pool)
    for t, src in lay['alias'].items():
        bl[t] = bl[src]
    kw = {k: bl[t] for k, t in (('di', 'd'), ('co', 'c'), ('ir', 'i'), ('hr', 'h')) if t in bl}
    if via_defaults:
        from pymodbus.constants import Defaults
        old = Defaults.ZeroMode
        Defaults.ZeroMode = zero
        try:
            slave = ModbusSlaveContext(**kw)
        finally:
            Defaults.ZeroMode = old
    elif defaults_opposite:
        # the process-wide default says the opposite; the explicit keyword has to win
        from pymodbus.constants import Defaults
        old = Defaults.ZeroMode
        Defaults.ZeroMode = not zero
        try:
            slave = ModbusSlaveContext(zero_mode=zero, **kw)
        finally:
            Defaults.ZeroMode = old
    elif zero_style == 'int':
        slave = ModbusSlaveContext(zero_mode=1 if zero else 0, **kw)       # the flag given as an integer (a value read from a configuration file)
    elif zero_style == 'late':
        slave = ModbusSlaveContext(zero_mode=not zero, **kw)               # the public attribute set after construction
        slave.zero_mode = zero
    else:
        slave = ModbusSlaveContext(zero_mode=zero, **kw)       # tables not given get pymodbus' default block
    for t in defaulted:
        bl[t] = slave.store[t]
    tabs = {}
    for t in TABLES:
        if t in lay['alias']:
            continue
        tabs[t] = {a - off: v for a, v in block_cells(lay[t]).items() if 0 <= a - off <= 0xFFFF}
    return slave, bl, RegFile(tabs, aliases=lay['alias'])


def build(layout):
    """layout = {'single': bool, 'zero_mode': bool, 'units': {uid: unit_layout}}
    -> (ModbusServerContext, Model, blocks {uid: {table: block}})"""
    zero = layout['zero_mode']
    slaves, models, blocks = {}, {}, {}
    pool = {} if layout.get('share_init_lists') else None
    for uid, lay in layout['units'].items():
        uid = int(uid)
        slaves[uid], blocks[uid], models[uid] = make_unit(lay, zero, pool, layout.get('via_defaults', False), layout.get('defaults_opposite', False), layout.get('zero_style'))
    if layout['single']:
        uid = next(iter(slaves))
        ctx = ModbusServerContext(slaves=slaves[uid], single=True)
    elif layout.get('table') == 'defaultdict':
        # the units kept in a dict subclass with a default: what is hosted is what was put in, asking for another id creates nothing
        import collections
        ctx = ModbusServerContext(slaves=collections.defaultdict(lambda: ModbusSlaveContext(zero_mode=True), slaves), single=False)
    else:
        ctx = ModbusServerContext(slaves=dict(slaves), single=False)
    return ctx, Model(layout, models), blocks


RETIRED = 1000          # a unit replaced or removed at run time keeps being dumped under key RETIRED * k + uid


def reconfigure(op, uid, lay, layout, ctx, blocks):
    """run-time reconfiguration through the context's public mapping interface (real side);
    returns the RegFile of the new unit (or None) for Model.reconfigure"""
    def retire(u):
        k = 1
        while RETIRED * k + u in blocks:
            k += 1
        blocks[RETIRED * k + u] = blocks.pop(u)
    if op == 'del':
        del ctx[uid]
        retire(uid)
        return None
    slave, bl, rf = make_unit(lay, layout['zero_mode'])
    if layout['single']:
        uid = next(iter(u for u in blocks if u < RETIRED))
    ctx[uid] = slave
    if uid in blocks:
        retire(uid)
    blocks[uid] = bl
    return rf


def build_model(layout):
    """the reference model alone (no pymodbus objects)"""
    off = 0 if layout['zero_mode'] else 1
    models = {}
    for uid, lay in layout['units'].items():
        tabs = {}
        for t in TABLES:
            if t in lay['alias']:
                continue
            tabs[t] = {a - off: v for a, v in block_cells(lay[t]).items() if 0 <= a - off <= 0xFFFF}
        models[int(uid)] = RegFile(tabs, aliases=lay['alias'])
    return Model(layout, models)


FAIL_CLASSES = ['RuntimeError', 'KeyError', 'OSError', 'ValueError', 'ModbusIOException', 'ConnectionException', 'NotImplementedException', 'ParameterException']


def make_failing(blocks_of_unit, exc_name):
    """every access to the tables of this unit raises (a remote / broken datastore); the exception class is the datastore's choice"""
    import builtins
    import pymodbus.exceptions as pe
    cls = getattr(pe, exc_name, None) or getattr(builtins, exc_name)
    seen = set()
    for b in blocks_of_unit.values():
        if id(b) in seen:
            continue
        seen.add(id(b))
        for name in ('validate', 'getValues', 'setValues'):
            def boom(*a, _n=name, **k):
                raise cls('datastore failure in %s' % _n)
            setattr(b, name, boom)


def aliasing_problems(blocks):
    """structural invariant at a quiescent point: two different data blocks never share their value container (a block that
    kept a caller's list - e.g. the list of one broadcast request handed to every unit - makes later writes show up elsewhere)"""
    seen = {}
    out = []
    owners = {}
    for uid, bl in blocks.items():
        for t, b in bl.items():
            if id(b) in owners and owners[id(b)][0] != uid:
                out.append('unit %s table %s and unit %s table %s are one and the same block object' % (owners[id(b)][0], owners[id(b)][1], uid, t))
            owners.setdefault(id(b), (uid, t))
    for uid, bl in blocks.items():
        for t, b in bl.items():
            vals = getattr(b, 'values', None)
            if vals is None:
                continue
            key = id(vals)
            if key in seen and seen[key][2] is not b:
                out.append('unit %s table %s and unit %s table %s are different blocks sharing one value container' % (seen[key][0], seen[key][1], uid, t))
            seen.setdefault(key, (uid, t, b))
    return out


def dump(blocks, zero_mode):
    """{uid: {table: {pdu_addr: value}}} read from the real blocks (read-only)"""
    off = 0 if zero_mode else 1
    out = {}
    for uid, bl in blocks.items():
        out[uid] = {t: {a - off: v for a, v in dict(iter(bl[t])).items() if 0 <= a - off <= 0xFFFF} for t in TABLES}
    return out


def norm_dump(d):
    return {u: {t: {a: (bool(v) if t in 'cd' else v) for a, v in tab.items()} for t, tab in tabs.items()} for u, tabs in d.items()}


class Model(object):
    """multi-unit reference server"""

    def __init__(self, layout, models):
        self.single = layout['single']
        self.units = models              # uid -> RegFile
        self.only = next(iter(models.values())) if self.single else None

    def hosted(self):
        return sorted(self.units)

    def dump(self):
        d = {u: m.dump() for u, m in self.units.items()}
        d.update({u: m.dump() for u, m in getattr(self, 'retired', {}).items()})
        return norm_dump(d)

    def reconfigure(self, op, uid, regfile):
        """mirror of servermodel.reconfigure on the model side"""
        if not hasattr(self, 'retired'):
            self.retired = {}

        def retire(u):
            k = 1
            while RETIRED * k + u in self.retired:
                k += 1
            self.retired[RETIRED * k + u] = self.units.pop(u)
        if op == 'del':
            retire(uid)
            return
        if self.single:
            uid = next(iter(self.units))
        if uid in self.units:
            retire(uid)
        self.units[uid] = regfile
        if self.single:
            self.only = regfile

    def target(self, unit):
        if self.single:
            return self.only
        return self.units.get(unit)

    def react(self, unit, m, broadcast_enable=False, ignore_missing=False):
        """-> ('reply', response message) | ('silent', why) | ('gateway', None: reply must be absent or exception 0x0A/0x0B)"""
        if m.get('illegal') or m['fc'] not in _KNOWN_FCS:
            tgt = self.target(unit)
            if broadcast_enable and unit == 0:
                return ('silent', 'broadcast')
            if tgt is None:
                return ('silent', 'missing unit ignored') if ignore_missing else ('gateway', None)
            return ('reply', {'dir': RSP, 'fc': m['fc'] | 0x80, 'code': 1})
        failing = getattr(self, 'failing', ())        # units whose datastore raises on every access
        if broadcast_enable and unit == 0:
            for uid, u in (self.units.items() if not self.single else [(next(iter(self.units)), self.only)]):
                if m['fc'] in DATA_FCS and uid not in failing:
                    u.execute(m)
            return ('silent', 'broadcast')
        tgt = self.target(unit)
        if tgt is None:
            return ('silent', 'missing unit ignored') if ignore_missing else ('gateway', None)
        if m['fc'] in DATA_FCS:
            if (unit in failing) or (self.single and failing):
                # a hosted unit whose datastore fails: quantity errors are found before the store is touched (03), anything else is
                # a server device failure (04); nothing changes
                return ('reply', {'dir': RSP, 'fc': m['fc'] | 0x80, 'code': 3 if tgt.classify(m) == 3 else 4})
            return ('reply', tgt.execute(m))
        if m['fc'] == 8 and m.get('sub') == 4:
            return ('silent', 'listen-only')
        return ('reply-any', m['fc'])          # non data-access request: only fc / ids are judged


_KNOWN_FCS = (1, 2, 3, 4, 5, 6, 7, 8, 11, 12, 15, 16, 17, 20, 21, 22, 23, 24, 43)
