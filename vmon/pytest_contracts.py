"""pytest plugin: run the repository's own tests with the C02 purity contracts attached."""
import json
import os


def pytest_configure(config):
    from vmon import contracts
    contracts.install_purity()


def pytest_sessionfinish(session, exitstatus):
    from vmon import contracts
    out = os.environ.get('VMON_CONTRACT_OUT')
    if out:
        with open(out, 'w') as f:
            json.dump(contracts.purity_stats(), f)
