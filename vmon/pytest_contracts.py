"""pytest plugin: run the repository's own tests with the C02 purity contracts attached."""
import json
import os


def pytest_configure(config):
    from vmon import contracts
    contracts.install_purity()
    contracts.install_datastore()


def pytest_sessionfinish(session, exitstatus):
    from vmon import contracts
    out = os.environ.get('VMON_CONTRACT_OUT')
    if out:
        with open(out, 'w') as f:
            json.dump(dict(contracts.purity_stats(), datastore=contracts.datastore_stats()), f)
