"""One uniform driver for the seven server front-ends, in-process with fake transports:
   sync-tcp, sync-serial, sync-udp, aio-tcp, aio-udp, tw-tcp, tw-udp
feed(front, framing, server_context, reads, options) -> Result

Stream front-ends get `reads` = list of byte chunks of ONE connection (each chunk is one
recv / data_received / dataReceived); datagram front-ends get one datagram per read.
Nothing here judges anything: it only feeds bytes and collects bytes, escapes and closes."""
import asyncio
import types
import warnings

from . import repo  # noqa: F401

import pymodbus.server.sync as sy
import pymodbus.server.async_io as aio
from pymodbus.factory import ServerDecoder
from pymodbus.transaction import (ModbusSocketFramer, ModbusRtuFramer, ModbusAsciiFramer,
                                  ModbusBinaryFramer, ModbusTlsFramer)

warnings.simplefilter('ignore')
_tw = None


def tw():
    global _tw
    if _tw is None:
        import pymodbus.server.asynchronous as m
        _tw = m
    return _tw


FRAMER = {'tcp': ModbusSocketFramer, 'rtu': ModbusRtuFramer, 'ascii': ModbusAsciiFramer,
          'binary': ModbusBinaryFramer, 'tls': ModbusTlsFramer}
STREAM = ('sync-tcp', 'sync-serial', 'aio-tcp', 'tw-tcp')
DATAGRAM = ('sync-udp', 'aio-udp', 'tw-udp')
ALL = STREAM + DATAGRAM
PEER = ('10.9.8.7', 4321)
PEERS = [PEER, ('10.9.8.9', 5555), ('10.1.1.1', 502)]      # opts['peers'][i] = index of the sender of datagram i


class Result(object):
    def __init__(self):
        self.out = b''              # stream front-ends: bytes written to the connection
        self.datagrams = []         # datagram front-ends: (bytes, addr)
        self.per_read = []          # output produced in reaction to each read (bytes)
        self.escaped = []           # exceptions that left the serving entry point
        self.closed = False         # the front-end closed / abandoned the connection
        self.fed = 0                # reads actually handed to the front-end
        self.stuck = False


_DECOY = None


class _NoBind(object):
    """construct a socketserver-based server object without creating a socket: the base class initialiser is replaced by a stub
    for the duration of the call, so that only pymodbus' own constructor code (defaults, option plumbing, context handling) runs"""

    def __init__(self, base):
        self.base = base

    def __enter__(self):
        self.old = self.base.__init__

        def stub(srv, address, handler, *a, **k):
            srv.server_address, srv.RequestHandlerClass, srv.socket = address, handler, None
        self.base.__init__ = stub
        return self

    def __exit__(self, *a):
        self.base.__init__ = self.old
        return False


def owner(framing, context, front=None, **opts):
    """the server object the handlers read their configuration from (self.server).  Wherever the real constructor can run without
    a socket it is used (sync TCP / UDP / serial, asyncio TCP), so that its own code - defaults, keyword plumbing, `context or
    default` - is part of what the checks exercise; the asyncio UDP server cannot be constructed on this interpreter
    (create_datagram_endpoint no longer takes reuse_address) and keeps the duck-typed stand-in."""
    import socketserver
    from pymodbus.constants import Defaults
    kw = {k: opts[k] for k in ('broadcast_enable', 'ignore_missing_slaves') if k in opts}
    saved = None
    if opts.get('via_defaults'):
        # the options are configured through the process-wide Defaults and the keywords are left out
        saved = (Defaults.IgnoreMissingSlaves, Defaults.broadcast_enable)
        Defaults.IgnoreMissingSlaves = bool(opts.get('ignore_missing_slaves', False))
        Defaults.broadcast_enable = bool(opts.get('broadcast_enable', False))
        kw = {}
    elif opts.get('defaults_opposite'):
        # the process-wide defaults say the opposite of the explicit keywords, which have to win
        saved = (Defaults.IgnoreMissingSlaves, Defaults.broadcast_enable)
        Defaults.IgnoreMissingSlaves = not bool(opts.get('ignore_missing_slaves', False))
        Defaults.broadcast_enable = not bool(opts.get('broadcast_enable', False))
        kw = {'broadcast_enable': bool(opts.get('broadcast_enable', False)), 'ignore_missing_slaves': bool(opts.get('ignore_missing_slaves', False))}

    def construct(k, ctx):
        if front == 'sync-tcp':
            with _NoBind(socketserver.ThreadingTCPServer):
                return sy.ModbusTcpServer(ctx, framer=FRAMER[framing], address=('127.0.0.1', 0), **k)
        if front == 'sync-udp':
            with _NoBind(socketserver.ThreadingUDPServer):
                return sy.ModbusUdpServer(ctx, framer=FRAMER[framing], address=('127.0.0.1', 0), **k)
        if front == 'sync-serial':
            return sy.ModbusSerialServer(ctx, framer=FRAMER[framing], port='/dev/vmon-no-such-port', timeout=0.01, **k)
        if front == 'aio-tcp':
            srv = aio.ModbusTcpServer(ctx, framer=FRAMER[framing], address=('127.0.0.1', 0), loop=_loop(), **k)
            try:
                # the protocol factory the server hands to loop.create_server(): connections get their handler from it
                srv._vmon_factory = srv.server_factory.cr_frame.f_locals.get('protocol_factory')
            except Exception:  # noqa
                srv._vmon_factory = None
            try:
                srv.server_factory.close()             # the listening socket is never created
            except Exception:  # noqa
                pass
            return srv
        return None
    try:
        srv = construct(kw, context)
        if srv is not None:
            # a second, differently configured server of the same kind is alive in the process (an application may run several):
            # nothing of it may show in the behaviour of the first
            from pymodbus.datastore import ModbusServerContext as _Ctx
            global _DECOY
            _DECOY = construct({'broadcast_enable': not bool(opts.get('broadcast_enable', False)),
                                'ignore_missing_slaves': not bool(opts.get('ignore_missing_slaves', False))}, _Ctx(slaves={}, single=False))
            # ... and it serves vendor function codes and its own lenient version of FC3 (custom_functions): the first server's
            # decoder must not learn them
            try:
                for c in _vendor_classes():
                    _DECOY.decoder.register(c)
            except Exception:  # noqa
                pass
            return srv
    finally:
        if saved is not None:
            Defaults.IgnoreMissingSlaves, Defaults.broadcast_enable = saved
    return types.SimpleNamespace(framer=FRAMER[framing], decoder=ServerDecoder(), context=context, threads=[],
                                 broadcast_enable=opts.get('broadcast_enable', False),
                                 ignore_missing_slaves=opts.get('ignore_missing_slaves', False),
                                 active_connections={}, control=None)


import atexit as _atexit, os as _os
if _os.environ.get('VERIF_SHOW_CUTS'):
    _atexit.register(lambda: print('CUTS', CUTS[0], _os.getpid()))
DEADLOCKS = [0]            # multi-connection runs of the threaded handlers that ended with all threads blocked for good
EMPTY = 'empty-datagram'   # marker in a list of reads: a datagram without payload (datagram front-ends; ignored by the others)
CUTS = [0]                 # reads longer than the size a handler asked for (delivered in pieces, as a socket does)


_VENDOR = []


def _vendor_classes():
    if not _VENDOR:
        from pymodbus.pdu import ModbusRequest
        from pymodbus.register_read_message import ReadHoldingRegistersRequest, ReadHoldingRegistersResponse

        def mk(fc):
            ns = {'function_code': fc, '_rtu_frame_size': 4, '__init__': lambda self, **k: ModbusRequest.__init__(self, **k), 'encode': lambda self: b'',
                  'decode': lambda self, data: None, 'execute': lambda self, ctx: ReadHoldingRegistersResponse([0xBEEF])}
            return type('VendorRequest_%02x' % fc, (ModbusRequest,), ns)

        class LenientRead(ReadHoldingRegistersRequest):
            def execute(self, context):
                return ReadHoldingRegistersResponse([0xBEEF] * min(self.count, 3))
        _VENDOR.extend([mk(0x41), mk(0x55), mk(0x64), LenientRead])
    return _VENDOR


class FakeSock(object):
    """request object of the sync stream handlers"""

    def __init__(self, reads, res, serial=False):
        self.reads, self.res, self.serial = list(reads), res, serial
        self.handler = None
        self.calls = 0
        self.rest = b''

    def recv(self, n):
        self.calls += 1
        if self.calls > len(self.res.per_read) + 50 + len(self.reads):
            self.res.stuck = True
            raise KeyboardInterrupt('handler spins')
        while self.reads and (callable(self.reads[0]) or isinstance(self.reads[0], str)):
            ev = self.reads.pop(0)            # run-time event between two reads (e.g. reconfiguration of the context)
            if callable(ev):                  # (string markers are events for datagram front-ends only)
                ev()
        if self.reads and isinstance(self.reads[0], BaseException):
            raise self.reads.pop(0)           # an idle period longer than the socket's receive timeout (socket.timeout) etc.
        if self.rest:
            self.calls -= 1
            out, self.rest = self.rest[:n], self.rest[n:]
            return out
        if self.reads:
            self.res.fed += 1
            self.res.per_read.append(b'')
            chunk = self.reads.pop(0)
            if isinstance(n, int) and 0 < n < len(chunk):
                # like the operating system: at most n bytes per call, the rest of what has arrived with the next call
                CUTS[0] += 1
                chunk, self.rest = chunk[:n], chunk[n:]
            return chunk
        if self.serial and self.handler is not None:
            self.handler.running = False      # the port stays open; stop the endless serve loop
        return b''

    read = recv

    def send(self, b):
        b = bytes(b)
        self.res.out += b
        if self.res.per_read:
            self.res.per_read[-1] += b
        return len(b)

    write = send

    def sendto(self, b, addr):
        self.res.datagrams.append((bytes(b), addr))
        if self.res.per_read:
            self.res.per_read[-1] += bytes(b)
        return len(b)

    def close(self):
        self.res.closed = True


_LOOP = [None]


def _loop():
    """one event loop per process (creating a loop per history costs more than the history)"""
    if _LOOP[0] is None or _LOOP[0].is_closed():
        _LOOP[0] = asyncio.new_event_loop()
        asyncio.set_event_loop(_LOOP[0])
    return _LOOP[0]


STALL_SECONDS = 20.0       # a front-end call that normally takes microseconds
STALL_COUNT = [0]          # stalls seen in this process (callers stop exploring after a few: each costs STALL_SECONDS)


_TICKS = [0]
_TICKER = [None]


def _ticker():
    import time as _t
    while True:
        _t.sleep(0.1)
        _TICKS[0] += 1


class _Stall(object):
    """wall-clock guard around one in-process front-end run: a handler that blocks (e.g. on a lock nobody releases) is interrupted
    by SIGALRM -> KeyboardInterrupt (lock acquisition is interruptible) and the run is marked stuck + stalled.  To tell a blocked
    main thread from a frozen process (suspended VM, overloaded machine) a background ticker thread counts tenths of a second: the
    guard only fires when the ticker ran for (most of) the guard period while the main thread made no progress; otherwise it re-arms.
    Main thread only; elsewhere it is a no-op."""
    fired = False

    def __enter__(self):
        import signal
        import threading
        self.on = threading.current_thread() is threading.main_thread()
        if self.on:
            if _TICKER[0] is None:
                _TICKER[0] = threading.Thread(target=_ticker, name='vmon-ticker', daemon=True)
                _TICKER[0].start()
            self.t0 = _TICKS[0]
            self.old = signal.signal(signal.SIGALRM, self._fire)
            signal.setitimer(signal.ITIMER_REAL, STALL_SECONDS)
        return self

    def _fire(self, *a):
        import signal
        if _TICKS[0] - self.t0 < 7 * STALL_SECONDS:          # (10 ticks per second when the process really runs)
            self.t0 = _TICKS[0]
            signal.setitimer(signal.ITIMER_REAL, STALL_SECONDS)
            return
        self.fired = True            # (the sync handlers have a bare `except:` that swallows the interrupt: the flag is what counts)
        raise KeyboardInterrupt('front-end call did not return within %.0f s' % STALL_SECONDS)

    def __exit__(self, *a):
        import signal
        if self.on:
            signal.setitimer(signal.ITIMER_REAL, 0)
            signal.signal(signal.SIGALRM, self.old)
        return False


def feed(front, framing, context, reads, **opts):
    if STALL_COUNT[0] >= 8:
        # every stall costs STALL_SECONDS of wall clock: stop the run (the driver reports what was found so far)
        raise RuntimeError('front-end calls keep blocking (%d stalls of %.0f s): run abandoned' % (STALL_COUNT[0], STALL_SECONDS))
    res = Result()
    res.stalled = False
    guard = _Stall()
    try:
        with guard:
            if front == 'sync-tcp':
                _sync_tcp(res, framing, context, reads, opts)
            elif front == 'sync-serial':
                _sync_serial(res, framing, context, reads, opts)
            elif front == 'sync-udp':
                _sync_udp(res, framing, context, reads, opts)
            elif front in ('aio-tcp', 'aio-udp'):
                loop = _loop()
                loop.run_until_complete((_aio_tcp if front == 'aio-tcp' else _aio_udp)(res, framing, context, reads, opts))
            elif front == 'tw-tcp':
                _tw_tcp(res, framing, context, reads, opts)
            elif front == 'tw-udp':
                _tw_udp(res, framing, context, reads, opts)
            else:
                raise ValueError(front)
    except KeyboardInterrupt as e:
        res.stuck = True
    if guard.fired:
        res.stuck = res.stalled = True               # wall-clock guard (callers repeat the case once before judging it)
        STALL_COUNT[0] += 1
    return res


# ------------------------------------------------------------------ sync
def _sync_tcp(res, framing, context, reads, opts):
    srv = owner(framing, context, 'sync-tcp', **opts)
    sock = FakeSock(reads, res)
    try:
        sy.ModbusConnectedRequestHandler(sock, PEER, srv)      # setup(), handle(), finish()
    except Exception as e:  # noqa
        res.escaped.append(e)
    res.closed = res.closed or bool(sock.reads)                  # handler returned before the peer finished sending


def _sync_serial(res, framing, context, reads, opts):
    srv = owner(framing, context, 'sync-serial', **opts)
    sock = FakeSock(reads, res, serial=True)
    h = sy.CustomSingleRequestHandler(sock, ('dev', 'dev'), srv)
    sock.handler = h
    try:
        h.handle()
    except Exception as e:  # noqa
        res.escaped.append(e)
    res.closed = bool(sock.reads)


def _sync_udp(res, framing, context, reads, opts):
    srv = owner(framing, context, 'sync-udp', **opts)
    peers, k = opts.get('peers') or [], -1
    for dg in reads:
        if dg == EMPTY:
            try:                              # a datagram without payload (legal UDP): nothing to answer, nothing to break
                sy.ModbusDisconnectedRequestHandler((b'', FakeSock([], res)), PEER, srv)
            except Exception as e:  # noqa
                res.escaped.append(e)
            continue
        if callable(dg) or isinstance(dg, (BaseException, str)):
            if callable(dg):
                dg()
            continue
        k += 1
        sock = FakeSock([], res)
        res.fed += 1
        res.per_read.append(b'')
        try:
            sy.ModbusDisconnectedRequestHandler((dg, sock), PEERS[peers[k]] if k < len(peers) else PEER, srv)
        except Exception as e:  # noqa
            res.escaped.append(e)


# ------------------------------------------------------------------ asyncio
class FakeTransport(object):
    def __init__(self, res):
        self.res = res

    def get_extra_info(self, k):
        return PEER

    def write(self, b):
        b = bytes(b)
        self.res.out += b
        if self.res.per_read:
            self.res.per_read[-1] += b

    def sendto(self, b, addr=None):
        self.res.datagrams.append((bytes(b), addr))
        if self.res.per_read:
            self.res.per_read[-1] += bytes(b)

    def close(self):
        self.res.closed = True

    def abort(self):
        self.res.closed = True


def _aio_handler(srv):
    """a connection's handler, made the way the server makes it (its own protocol factory) when that could be obtained"""
    f = getattr(srv, '_vmon_factory', None)
    if callable(f):
        h = f()
        if isinstance(h, aio.ModbusConnectedRequestHandler):
            return h
    return aio.ModbusConnectedRequestHandler(srv)


async def _drain(h, limit=200):
    for _ in range(limit):
        await asyncio.sleep(0)
        if h.receive_queue.empty():
            await asyncio.sleep(0)
            return True
    return False


async def _aio_tcp(res, framing, context, reads, opts):
    srv = owner(framing, context, 'aio-tcp', **opts)
    h = _aio_handler(srv)
    tr = FakeTransport(res)
    h.connection_made(tr)
    burst = list(opts.get('burst') or [])       # group sizes: that many reads are queued before the handler task gets to run
    pending = 0
    for chunk in reads:
        if callable(chunk) or isinstance(chunk, (BaseException, str)):
            if callable(chunk):
                chunk()
            continue
        if res.closed:
            break                      # transport.close() was called: the loop would deliver no more data
        res.fed += 1
        res.per_read.append(b'')
        try:
            h.data_received(chunk)
        except Exception as e:  # noqa
            res.escaped.append(e)
        if pending == 0 and burst:
            pending = burst.pop(0)
        pending = max(0, pending - 1)
        if pending:
            continue
        if not await _drain(h):
            res.stuck = True
            break
        if h.handler_task.done() and not h.handler_task.cancelled():
            exc = h.handler_task.exception()
            if exc is not None:
                res.escaped.append(exc)
            break
    try:
        h.connection_lost(None)
    except Exception as e:  # noqa
        res.escaped.append(e)
    await asyncio.sleep(0)


async def _aio_udp(res, framing, context, reads, opts):
    srv = owner(framing, context, **opts)
    h = aio.ModbusDisconnectedRequestHandler(srv)
    tr = FakeTransport(res)
    h.connection_made(tr)
    burst = list(opts.get('burst') or [])
    peers, k, pending = opts.get('peers') or [], -1, 0
    for dg in reads:
        if dg == EMPTY:
            try:
                h.datagram_received(b'', PEER)
            except Exception as e:  # noqa
                res.escaped.append(e)
            if not pending:
                await _drain(h)
            continue
        if callable(dg) or isinstance(dg, (BaseException, str)):
            if callable(dg):
                dg()
            continue
        k += 1
        res.fed += 1
        res.per_read.append(b'')
        try:
            h.datagram_received(dg, PEERS[peers[k]] if k < len(peers) else PEER)
        except Exception as e:  # noqa
            res.escaped.append(e)
        if pending == 0 and burst:
            pending = burst.pop(0)
        pending = max(0, pending - 1)
        if pending:
            continue
        if not await _drain(h):
            res.stuck = True
            break
        if h.handler_task.done() and not h.handler_task.cancelled():
            exc = h.handler_task.exception()
            if exc is not None:
                res.escaped.append(exc)
            res.closed = True
            break
    h.handler_task.cancel()
    await asyncio.sleep(0)


# ------------------------------------------------------------------ Twisted
def _tw_build(kind, context, framing, opts):
    from pymodbus.constants import Defaults
    cls = tw().ModbusServerFactory if kind == 'factory' else tw().ModbusUdpProtocol
    ign = bool(opts.get('ignore_missing_slaves', False))
    if opts.get('via_defaults'):
        old = Defaults.IgnoreMissingSlaves
        Defaults.IgnoreMissingSlaves = ign
        try:
            return cls(context, framer=FRAMER[framing])
        finally:
            Defaults.IgnoreMissingSlaves = old
    if opts.get('defaults_opposite'):
        old = Defaults.IgnoreMissingSlaves
        Defaults.IgnoreMissingSlaves = not ign
        try:
            return cls(context, framer=FRAMER[framing], ignore_missing_slaves=ign)
        finally:
            Defaults.IgnoreMissingSlaves = old
    return cls(context, framer=FRAMER[framing], ignore_missing_slaves=ign)


def _tw_tcp(res, framing, context, reads, opts):
    from twisted.test import proto_helpers
    fac = _tw_build('factory', context, framing, opts)
    p = fac.buildProtocol(None)
    tr = proto_helpers.StringTransport()
    p.makeConnection(tr)
    seen = 0
    for chunk in reads:
        if callable(chunk) or isinstance(chunk, (BaseException, str)):
            if callable(chunk):
                chunk()
            continue
        res.fed += 1
        res.per_read.append(b'')
        try:
            p.dataReceived(chunk)
        except Exception as e:  # noqa
            # under the reactor an exception out of dataReceived is logged and the connection is closed
            res.escaped.append(e)
            res.closed = True
        v = tr.value()
        res.per_read[-1] = v[seen:]
        seen = len(v)
        if res.closed:
            break
    res.out = tr.value()
    try:
        p.connectionLost(None)
    except Exception:  # noqa
        pass


def _tw_udp(res, framing, context, reads, opts):
    from twisted.test import proto_helpers
    p = _tw_build('udp', context, framing, opts)
    tr = proto_helpers.FakeDatagramTransport()
    p.makeConnection(tr)
    peers, k = opts.get('peers') or [], -1
    for dg in reads:
        if dg == EMPTY:
            try:
                p.datagramReceived(b'', PEER)
            except Exception as e:  # noqa
                res.escaped.append(e)
            continue
        if callable(dg) or isinstance(dg, (BaseException, str)):
            if callable(dg):
                dg()
            continue
        k += 1
        res.fed += 1
        res.per_read.append(b'')
        n = len(tr.written)
        try:
            p.datagramReceived(dg, PEERS[peers[k]] if k < len(peers) else PEER)
        except Exception as e:  # noqa
            # the reactor logs the error; the port keeps listening
            res.escaped.append(e)
        for b, addr in tr.written[n:]:
            res.datagrams.append((bytes(b), addr))
            res.per_read[-1] += bytes(b)


def supports(front, framing):
    if framing == 'tls':
        return front in ('sync-tcp', 'aio-tcp')
    return True


# ------------------------------------------------------------------ several connections, interleaved
def feed_multi(front, framing, context, conns, order, **opts):
    """conns: list (one per connection) of lists of chunks; order: sequence of connection indices saying whose
    next chunk is delivered next.  Returns one Result per connection.  Only stream front-ends."""
    results = [Result() for _ in conns]
    queues = [list(c) for c in conns]
    if DEADLOCKS[0] >= 3 and front in ('sync-tcp', 'sync-serial'):
        # the handler threads of this process keep blocking for good (each run leaves its blocked threads behind): no further runs
        for res in results:
            res.stuck, res.deadlock = True, True
        return results
    if front == 'tw-tcp':
        from twisted.test import proto_helpers
        fac = _tw_build('factory', context, framing, opts)
        protos = []
        for res in results:
            p = fac.buildProtocol(None)
            tr = proto_helpers.StringTransport()
            p.makeConnection(tr)
            protos.append((p, tr))
        for i in order:
            if not queues[i] or results[i].closed:
                continue
            p, tr = protos[i]
            results[i].fed += 1
            try:
                p.dataReceived(queues[i].pop(0))
            except Exception as e:  # noqa
                results[i].escaped.append(e)
                results[i].closed = True
            results[i].out = tr.value()
        return results
    if front == 'aio-tcp':
        async def go():
            srv = owner(framing, context, "aio-tcp", **opts)
            hs = []
            for res in results:
                h = _aio_handler(srv)
                h.connection_made(FakeTransport(res))
                hs.append(h)
            for i in order:
                if not queues[i] or results[i].closed:
                    continue
                results[i].fed += 1
                results[i].per_read.append(b'')
                hs[i].data_received(queues[i].pop(0))
                await _drain(hs[i])
            for h in hs:
                h.connection_lost(None)
            await asyncio.sleep(0)
        _loop().run_until_complete(go())
        return results
    if front in ('sync-tcp', 'sync-serial'):
        from .doubles.sched import Sched
        srv = owner(framing, context, front, **opts)
        plan = list(order)
        state = {'warm': list(range(len(conns)))}

        def chooser(step, cands):
            # first let every handler thread run up to its first recv, then follow the delivery order
            if state['warm']:
                want = 'C%d' % state['warm'].pop(0)
            else:
                while plan and not queues[plan[0]]:
                    plan.pop(0)
                want = 'C%d' % plan.pop(0) if plan else cands[0]
            return cands.index(want) if want in cands else 0
        chooser.wants_names = True
        fine = opts.get('fine_seed')
        if fine is not None:
            # fine-grained mode: every source line of the framers / sync handlers / decoder / datastore executed by a handler
            # thread is a pre-emption point, and a seeded random chooser picks who runs next (runs of several lines)
            import random as _random
            import sys as _sys
            rnd = _random.Random(fine)
            fstate = {'cur': None, 'left': 0}

            def chooser(step, cands):                  # noqa: F811
                if fstate['cur'] in cands and fstate['left'] > 0:
                    fstate['left'] -= 1
                    return cands.index(fstate['cur'])
                fstate['cur'] = rnd.choice(cands)
                fstate['left'] = rnd.choice([0, 1, 2, 3, 5, 8, 13, 40])
                return cands.index(fstate['cur'])
            chooser.wants_names = True

            def _local(frame, event, arg):
                if event == 'line':
                    sched.yield_point(('line', None))
                return _local

            def _tracer(frame, event, arg):
                fn = frame.f_code.co_filename
                if '/pymodbus/framer/' in fn or fn.endswith('/pymodbus/server/sync.py') or fn.endswith('/pymodbus/factory.py') \
                        or '/pymodbus/datastore/' in fn or fn.endswith('/pymodbus/pdu.py'):
                    return _local
                return None
        sched = Sched(chooser)

        class GatedSock(FakeSock):
            def __init__(self, idx, res):
                FakeSock.__init__(self, [], res, serial=(front == 'sync-serial'))
                self.idx = idx

            def recv(self, n):
                sched.yield_point(('recv', self.idx))
                if queues[self.idx] and isinstance(queues[self.idx][0], BaseException):
                    raise queues[self.idx].pop(0)
                if queues[self.idx]:
                    self.res.fed += 1
                    self.res.per_read.append(b'')
                    return queues[self.idx].pop(0)
                if self.serial and self.handler is not None:
                    self.handler.running = False
                return b''
            read = recv
        for i, res in enumerate(results):
            sock = GatedSock(i, res)

            def body(sock=sock, res=res):
                if fine is not None:
                    _sys.settrace(_tracer)
                try:
                    if front == 'sync-tcp':
                        sy.ModbusConnectedRequestHandler(sock, PEER, srv)
                    else:
                        h = sy.CustomSingleRequestHandler(sock, ('dev', 'dev'), srv)
                        sock.handler = h
                        h.handle()
                except Exception as e:  # noqa
                    res.escaped.append(e)
            sched.spawn('C%d' % i, body)
        st = sched.run(max_steps=400000 if fine is not None else 20000, wall_timeout=60.0 if fine is not None else 20.0)
        if st != 'OK':
            for res in results:
                res.stuck = True
                # DEADLOCK: every handler thread that is still alive sits in a blocking call the doubles do not make (they never
                # block) - a lock of the code under test that nobody will release
                res.deadlock = False
            if st == 'DEADLOCK':
                # confirm: give the blocked threads eight more seconds of wall clock (a loaded machine can starve a thread for a while);
                # only if none of them has moved is it a deadlock
                import time as _time
                snap = (set(sched.parked), set(sched.done))
                t_end = _time.time() + 8.0
                while _time.time() < t_end and (set(sched.parked), set(sched.done)) == snap:
                    _time.sleep(0.25)
                if (set(sched.parked), set(sched.done)) == snap:
                    DEADLOCKS[0] += 1
                    for res in results:
                        res.deadlock = True
        return results
    raise ValueError(front)
