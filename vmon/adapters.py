"""The only place that knows pymodbus attribute names: spec message <-> pymodbus object.

build(m)    constructs a *fresh* pymodbus message from a spec message through the public
            constructors (plus public attribute assignment where the constructor offers no
            parameter);
extract(o)  reads the public fields of a pymodbus message back into a spec message.
"""
from . import repo  # noqa: F401  (fixes sys.path)
from .spec import pdu as S
from .spec.pdu import REQ, RSP

import pymodbus.bit_read_message as brm
import pymodbus.bit_write_message as bwm
import pymodbus.register_read_message as rrm
import pymodbus.register_write_message as rwm
import pymodbus.file_message as fm
import pymodbus.other_message as om
import pymodbus.diag_message as dm
import pymodbus.mei_message as mm
import pymodbus.pdu as pp


class Unrepresentable(Exception):
    """The spec message has no pymodbus object (e.g. FC5 value 0x1234 as a constructed request)."""


DIAG_REQ = {
    0: dm.ReturnQueryDataRequest, 1: dm.RestartCommunicationsOptionRequest,
    2: dm.ReturnDiagnosticRegisterRequest, 3: dm.ChangeAsciiInputDelimiterRequest,
    4: dm.ForceListenOnlyModeRequest, 10: dm.ClearCountersRequest,
    11: dm.ReturnBusMessageCountRequest, 12: dm.ReturnBusCommunicationErrorCountRequest,
    13: dm.ReturnBusExceptionErrorCountRequest, 14: dm.ReturnSlaveMessageCountRequest,
    15: dm.ReturnSlaveNoResponseCountRequest, 16: dm.ReturnSlaveNAKCountRequest,
    17: dm.ReturnSlaveBusyCountRequest, 18: dm.ReturnSlaveBusCharacterOverrunCountRequest,
    19: dm.ReturnIopOverrunCountRequest, 20: dm.ClearOverrunCountRequest,
    21: dm.GetClearModbusPlusRequest,
}
DIAG_RSP = {
    0: dm.ReturnQueryDataResponse, 1: dm.RestartCommunicationsOptionResponse,
    2: dm.ReturnDiagnosticRegisterResponse, 3: dm.ChangeAsciiInputDelimiterResponse,
    4: dm.ForceListenOnlyModeResponse, 10: dm.ClearCountersResponse,
    11: dm.ReturnBusMessageCountResponse, 12: dm.ReturnBusCommunicationErrorCountResponse,
    13: dm.ReturnBusExceptionErrorCountResponse, 14: dm.ReturnSlaveMessageCountResponse,
    15: dm.ReturnSlaveNoReponseCountResponse, 16: dm.ReturnSlaveNAKCountResponse,
    17: dm.ReturnSlaveBusyCountResponse, 18: dm.ReturnSlaveBusCharacterOverrunCountResponse,
    19: dm.ReturnIopOverrunCountResponse, 20: dm.ClearOverrunCountResponse,
    21: dm.GetClearModbusPlusResponse,
}

# class registered for (direction, fc) (diagnostics by sub-function above)
CLASS = {
    (REQ, 1): brm.ReadCoilsRequest, (RSP, 1): brm.ReadCoilsResponse,
    (REQ, 2): brm.ReadDiscreteInputsRequest, (RSP, 2): brm.ReadDiscreteInputsResponse,
    (REQ, 3): rrm.ReadHoldingRegistersRequest, (RSP, 3): rrm.ReadHoldingRegistersResponse,
    (REQ, 4): rrm.ReadInputRegistersRequest, (RSP, 4): rrm.ReadInputRegistersResponse,
    (REQ, 5): bwm.WriteSingleCoilRequest, (RSP, 5): bwm.WriteSingleCoilResponse,
    (REQ, 6): rwm.WriteSingleRegisterRequest, (RSP, 6): rwm.WriteSingleRegisterResponse,
    (REQ, 7): om.ReadExceptionStatusRequest, (RSP, 7): om.ReadExceptionStatusResponse,
    (REQ, 11): om.GetCommEventCounterRequest, (RSP, 11): om.GetCommEventCounterResponse,
    (REQ, 12): om.GetCommEventLogRequest, (RSP, 12): om.GetCommEventLogResponse,
    (REQ, 15): bwm.WriteMultipleCoilsRequest, (RSP, 15): bwm.WriteMultipleCoilsResponse,
    (REQ, 16): rwm.WriteMultipleRegistersRequest, (RSP, 16): rwm.WriteMultipleRegistersResponse,
    (REQ, 17): om.ReportSlaveIdRequest, (RSP, 17): om.ReportSlaveIdResponse,
    (REQ, 20): fm.ReadFileRecordRequest, (RSP, 20): fm.ReadFileRecordResponse,
    (REQ, 21): fm.WriteFileRecordRequest, (RSP, 21): fm.WriteFileRecordResponse,
    (REQ, 22): rwm.MaskWriteRegisterRequest, (RSP, 22): rwm.MaskWriteRegisterResponse,
    (REQ, 23): rrm.ReadWriteMultipleRegistersRequest, (RSP, 23): rrm.ReadWriteMultipleRegistersResponse,
    (REQ, 24): fm.ReadFifoQueueRequest, (RSP, 24): fm.ReadFifoQueueResponse,
    (REQ, 43): mm.ReadDeviceInformationRequest, (RSP, 43): mm.ReadDeviceInformationResponse,
}


def expected_class(m):
    d, fc = m['dir'], m['fc']
    if d == RSP and fc >= 0x80:
        return pp.ExceptionResponse
    if fc == 8:
        return (DIAG_REQ if d == REQ else DIAG_RSP).get(m['sub'],
                                                        dm.DiagnosticStatusRequest if d == REQ else dm.DiagnosticStatusResponse)
    return CLASS[(d, fc)]


def _coil_word_to_bool(v):
    if v == 0xFF00:
        return True
    if v == 0:
        return False
    raise Unrepresentable('coil value %#x' % v)


def build(m, **kw):
    """Fresh pymodbus object for spec message m.  kw: transaction=, protocol=, unit=."""
    d, fc = m['dir'], m['fc']
    if d == RSP and fc >= 0x80:
        return pp.ExceptionResponse(fc & 0x7F, m['code'], **kw)
    if fc == 8:
        cls = (DIAG_REQ if d == REQ else DIAG_RSP)[m['sub']]
        data = list(m['data'])
        sub = m['sub']
        if sub == 0:
            return cls(data, **kw)
        if sub == 1:
            if len(data) != 1:
                raise Unrepresentable('restart option data')
            return cls(_coil_word_to_bool(data[0]), **kw)
        if sub == 4 and d == RSP:
            if data:
                raise Unrepresentable('listen-only response carries no data')
            return cls(**kw)
        if len(data) != 1:
            raise Unrepresentable('simple diagnostic with %d data words' % len(data))
        return cls(data=data[0], **kw)
    cls = CLASS[(d, fc)]
    if d == REQ:
        if fc in (1, 2, 3, 4):
            return cls(m['address'], m['count'], **kw)
        if fc == 5:
            return cls(m['address'], _coil_word_to_bool(m['value']), **kw)
        if fc == 6:
            return cls(m['address'], m['value'], **kw)
        if fc in (7, 11, 12, 17):
            return cls(**kw)
        if fc == 15:
            if 'count' in m or 'byte_count' in m:
                raise Unrepresentable('raw override')
            return cls(m['address'], list(m['bits']), **kw)
        if fc == 16:
            if 'count' in m or 'byte_count' in m:
                raise Unrepresentable('raw override')
            return cls(m['address'], list(m['registers']), **kw)
        if fc == 20:
            return cls([fm.FileRecord(file_number=f, record_number=r, record_length=l)
                        for f, r, l in m['records']], **kw)
        if fc == 21:
            return cls([fm.FileRecord(file_number=f, record_number=r, record_data=bytes(data))
                        for f, r, data in m['records']], **kw)
        if fc == 22:
            return cls(m['address'], m['and_mask'], m['or_mask'], **kw)
        if fc == 23:
            if 'write_count' in m or 'byte_count' in m:
                raise Unrepresentable('raw override')
            return cls(read_address=m['read_address'], read_count=m['read_count'],
                       write_address=m['write_address'], write_registers=list(m['registers']), **kw)
        if fc == 24:
            return cls(m['address'], **kw)
        if fc == 43:
            return cls(m['read_code'], m['object_id'], **kw)
    else:
        if fc in (1, 2):
            return cls(list(m['bits']), **kw)
        if fc in (3, 4, 23):
            return cls(list(m['registers']), **kw)
        if fc == 5:
            return cls(m['address'], _coil_word_to_bool(m['value']), **kw)
        if fc == 6:
            return cls(m['address'], m['value'], **kw)
        if fc == 7:
            return cls(m['status'], **kw)
        if fc == 11:
            o = cls(m['count'], **kw)
            o.status = _ready_word_to_bool(m['status'])
            return o
        if fc == 12:
            return cls(status=_ready_word_to_bool(m['status']), message_count=m['message_count'],
                       event_count=m['event_count'], events=list(m['events']), **kw)
        if fc in (15, 16):
            return cls(m['address'], m['count'], **kw)
        if fc == 17:
            if m['run'] not in (0, 0xFF):
                raise Unrepresentable('run indicator')
            return cls(bytes(m['identifier']), m['run'] == 0xFF, **kw)
        if fc == 20:
            return cls([fm.FileRecord(record_data=bytes(data)) for data in m['records']], **kw)
        if fc == 21:
            return cls([fm.FileRecord(file_number=f, record_number=r, record_data=bytes(data))
                        for f, r, data in m['records']], **kw)
        if fc == 22:
            return cls(m['address'], m['and_mask'], m['or_mask'], **kw)
        if fc == 24:
            return cls(list(m['values']), **kw)
        if fc == 43:
            ids = [i for i, _ in m['objects']]
            if len(set(ids)) != len(ids):
                raise Unrepresentable('a constructed device-id response holds one value per object id')
            info = {}
            for i, v in m['objects']:
                info[i] = bytes(v)
            o = cls(m['read_code'], info, **kw)
            # conformity level and the paging fields are public attributes the application (a gateway forwarding a page, a device
            # with its own paging) may set after construction; encode() has to carry them
            if m['conformity'] != 0x83:
                o.conformity = m['conformity']
            if m['more'] or m['next']:
                o.more_follows, o.next_object_id = m['more'], m['next']
            return o
    raise Unrepresentable(repr(m))


def _ready_word_to_bool(w):
    if w == 0:
        return True
    if w == 0xFFFF:
        return False
    raise Unrepresentable('status word %#x' % w)


def _diag_data(msg):
    if msg is None:
        return []
    if isinstance(msg, bool):
        return [int(msg)]
    if isinstance(msg, int):
        return [msg]
    if isinstance(msg, (bytes, bytearray)):
        b = bytes(msg)
        if len(b) % 2:
            return ['odd-bytes', b]
        return S.unwords(b)
    if isinstance(msg, str):
        return _diag_data(msg.encode())
    return list(msg)


def extract(o):
    """pymodbus object -> spec message (public attributes only)."""
    if isinstance(o, pp.ExceptionResponse):
        return {'dir': RSP, 'fc': o.function_code, 'code': o.exception_code}
    if isinstance(o, pp.IllegalFunctionRequest):
        return {'dir': REQ, 'fc': o.function_code, 'illegal': True}
    d = REQ if isinstance(o, pp.ModbusRequest) else RSP
    fc = o.function_code
    m = {'dir': d, 'fc': fc}
    if fc == 8:
        m['sub'] = o.sub_function_code
        m['data'] = _diag_data(o.message)
        return m
    if d == REQ:
        if fc in (1, 2, 3, 4):
            m['address'], m['count'] = o.address, o.count
        elif fc == 5:
            m['address'], m['value'] = o.address, (0xFF00 if o.value else 0)
        elif fc == 6:
            m['address'], m['value'] = o.address, o.value
        elif fc == 15:
            m['address'], m['bits'] = o.address, [bool(x) for x in o.values]
        elif fc == 16:
            m['address'], m['registers'] = o.address, list(o.values)
        elif fc == 20:
            m['records'] = [(r.file_number, r.record_number, r.record_length) for r in o.records]
        elif fc == 21:
            m['records'] = [(r.file_number, r.record_number, bytes(r.record_data)) for r in o.records]
        elif fc == 22:
            m['address'], m['and_mask'], m['or_mask'] = o.address, o.and_mask, o.or_mask
        elif fc == 23:
            m['read_address'], m['read_count'] = o.read_address, o.read_count
            m['write_address'], m['registers'] = o.write_address, list(o.write_registers)
        elif fc == 24:
            m['address'] = o.address
        elif fc == 43:
            m['read_code'], m['object_id'] = o.read_code, o.object_id
    else:
        if fc in (1, 2):
            m['bits'] = [bool(x) for x in o.bits]
        elif fc in (3, 4, 23):
            m['registers'] = list(o.registers)
        elif fc == 5:
            m['address'], m['value'] = o.address, (0xFF00 if o.value else 0)
        elif fc == 6:
            m['address'], m['value'] = o.address, o.value
        elif fc == 7:
            m['status'] = o.status
        elif fc == 11:
            m['status'], m['count'] = (0 if o.status else 0xFFFF), o.count
        elif fc == 12:
            m['status'] = 0 if o.status else 0xFFFF
            m['event_count'], m['message_count'] = o.event_count, o.message_count
            m['events'] = bytes(o.events)
        elif fc in (15, 16):
            m['address'], m['count'] = o.address, o.count
        elif fc == 17:
            m['identifier'], m['run'] = bytes(o.identifier), (0xFF if o.status else 0)
        elif fc == 20:
            m['records'] = [bytes(r.record_data) for r in o.records]
        elif fc == 21:
            m['records'] = [(r.file_number, r.record_number, bytes(r.record_data)) for r in o.records]
        elif fc == 22:
            m['address'], m['and_mask'], m['or_mask'] = o.address, o.and_mask, o.or_mask
        elif fc == 24:
            m['values'] = list(o.values)
        elif fc == 43:
            m['read_code'], m['conformity'] = o.read_code, o.conformity
            m['more'], m['next'] = o.more_follows, o.next_object_id
            objs = []
            for i, v in o.information.items():
                for item in (v if isinstance(v, list) else [v]):
                    objs.append((i, item if isinstance(item, bytes) else str(item).encode()))
            m['objects'] = objs
    return m


def same(a, b, pad=False):
    """Field equality of two spec messages; pad=True compares bit lists up to zero padding."""
    a, b = dict(a), dict(b)
    if pad:
        for m in (a, b):
            if 'bits' in m and m['dir'] == RSP:
                m['bits'] = S.pad_bits(m['bits'])
    return S.norm(a) == S.norm(b)


def all_message_classes():
    """Every class registered in the decoders (incl. diagnostic sub-classes)."""
    out = set(CLASS.values()) | set(DIAG_REQ.values()) | set(DIAG_RSP.values())
    out.add(pp.ExceptionResponse)
    return out
