"""Idempotent offline bootstrap of icontract into /verif/.deps (git-ignored, rebuilt on demand)."""
import fcntl
import os
import subprocess
import sys

ROOT = os.path.dirname(os.path.dirname(os.path.abspath(__file__)))
DEPS = os.path.join(ROOT, '.deps')
WHEELS = '/opt/veriftools/wheels'


def ensure():
    marker = os.path.join(DEPS, '.ok')
    if os.path.exists(marker):
        return
    os.makedirs(DEPS, exist_ok=True)
    with open(os.path.join(DEPS, '.lock'), 'w') as lk:
        fcntl.flock(lk, fcntl.LOCK_EX)
        if os.path.exists(marker):
            return
        env = dict(os.environ, PIP_NO_INDEX='1', PIP_DISABLE_PIP_VERSION_CHECK='1')
        subprocess.run([sys.executable, '-m', 'pip', 'install', '--quiet', '--no-index',
                        '--find-links', WHEELS, '--target', DEPS, 'icontract'],
                       check=True, env=env, stdout=subprocess.DEVNULL)
        open(marker, 'w').close()


def activate():
    if DEPS not in sys.path:
        sys.path.append(DEPS)
