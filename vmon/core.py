"""Runner, three-valued verdicts, evidence writer, known-finding bookkeeping, sharding.

Every property module exposes  run(run: Run)  which generates cases and calls the
monitors;  replay(run, case)  re-executes one serialised case.
"""
import hashlib
import json
import os
import pickle
import random
import subprocess
import sys
import time

ROOT = os.path.dirname(os.path.dirname(os.path.abspath(__file__)))
OUT = os.path.join(ROOT, 'out')
EVID = os.path.join(ROOT, 'evidence')
if os.environ.get('VERIF_SELFTEST') or os.path.abspath(os.environ.get('VERIF_REPO', '/repo')) != '/repo':
    # runs against scratch copies (mutants, seeded changes) never touch the committed evidence
    EVID = os.path.join(OUT, 'scratch-evidence', str(os.getpid()))
KNOWN_FILE = os.path.join(ROOT, 'known_findings.json')

EXIT_HELD, EXIT_VIOLATED, EXIT_INCONCLUSIVE = 0, 1, 2


def h64(obj):
    """Stable 64-bit fingerprint of a JSON-able / repr-able object."""
    if not isinstance(obj, (bytes, bytearray)):
        obj = repr(obj).encode()
    return int.from_bytes(hashlib.blake2b(obj, digest_size=8).digest(), 'big')


def jsonable(o):
    if isinstance(o, (bytes, bytearray)):
        return {'hex': bytes(o).hex()}
    if isinstance(o, dict):
        return {str(k): jsonable(v) for k, v in o.items()}
    if isinstance(o, (list, tuple)):
        return [jsonable(v) for v in o]
    if isinstance(o, (set, frozenset)):
        return sorted(jsonable(v) for v in o)
    if isinstance(o, (int, str, bool)) or o is None:
        return o
    if isinstance(o, float):
        return o if o == o and abs(o) != float('inf') else repr(o)
    return repr(o)


def unjson(o):
    if isinstance(o, dict):
        if set(o) == {'hex'}:
            return bytes.fromhex(o['hex'])
        return {k: unjson(v) for k, v in o.items()}
    if isinstance(o, list):
        return [unjson(v) for v in o]
    return o


def load_known():
    with open(KNOWN_FILE) as f:
        data = json.load(f)
    active = {}
    for e in data.get('known', []):
        active[e['slug']] = e
    return active, data.get('fixed', [])


class Run(object):
    """Collects what one check run observed and decides the verdict."""

    def __init__(self, prop, tier, seed, level, shard=None, nshards=1, replay=False):
        self.prop, self.tier, self.seed, self.level = prop, tier, seed, level
        self.shard, self.nshards = shard, nshards
        self.is_replay = replay
        self.t0 = time.time()
        self.evaluations = 0
        self.distinct = set()
        self.samples = []
        self.sample_keys = set()
        self.rule = ''
        self.exhaustive = False
        self.counters = {}
        self.known_active, self.fixed = load_known()
        self.known_tally = {}           # slug -> [cases_in_region, failed, example]
        self.violations = {}            # mechanism fp -> (message, case)
        self.nviol = 0
        self.floors = []                # (name, value, floor)
        self.inconclusive = []          # reasons
        self.assumptions = []
        self.watchdogs = 0
        self.observed = {}
        self.deadline = None
        self.loglevel_period = 0 if os.environ.get('VERIF_NO_LOGLEVEL') else 40      # cases per block (see case())

    # ----------------------------------------------------------------- rng
    def rng(self, *salt):
        return random.Random('%s:%s:%s:%s' % (self.prop, self.seed, self.shard or 0,
                                              ':'.join(map(str, salt))))

    @property
    def thorough(self):
        return self.tier == 'thorough'

    def mine(self, i):
        """True when item i of an enumerated space belongs to this shard."""
        return self.shard is None or i % self.nshards == self.shard

    def scale(self, quick, thorough):
        n = thorough if self.thorough else quick
        if self.shard is not None:
            n = max(1, n // self.nshards)
        return n

    # ------------------------------------------------------------ counting
    def count(self, name, n=1):
        self.counters[name] = self.counters.get(name, 0) + n

    def case(self, fingerprint=None, nontrivial=True, sample=None, sample_class=None):
        """Register one executed case."""
        self.evaluations += 1
        if self.loglevel_period and not self.is_replay:
            # environment fact varied across the run: every fourth block of cases runs with pymodbus' loggers at DEBUG
            from . import repo as _repo
            _repo.debug_logging((self.evaluations // self.loglevel_period) % 4 == 3)
        if nontrivial and fingerprint is not None:
            self.distinct.add(fingerprint if isinstance(fingerprint, int) else h64(fingerprint))
        if sample is not None:
            key = sample_class if sample_class is not None else len(self.samples)
            if key not in self.sample_keys and len(self.samples) < 12:
                self.sample_keys.add(key)
                self.samples.append(jsonable(sample))

    def floor(self, name, value, minimum):
        self.floors.append((name, value, minimum))

    # ------------------------------------------------------------ verdicts
    def region(self, slug, n=1):
        t = self.known_tally.setdefault(slug, [0, 0, None])
        t[0] += n

    def known(self, slug, what, case=None):
        """A failure inside a known-finding region with the excused failure kind.
        Returns True when the slug is active (listed); otherwise the caller's failure
        is reported as a violation."""
        if slug not in self.known_active or self.prop not in self.known_active[slug]['properties']:
            self.violation('unlisted:' + slug, case, 'finding %s is not listed for %s: %s' % (slug, self.prop, what))
            return True
        t = self.known_tally.setdefault(slug, [0, 0, None])
        key = (slug, id(case))
        if case is None or key != getattr(self, '_last_known', None):
            t[1] += 1                   # once per case
        self._last_known = key
        if t[2] is None:
            t[2] = what
        return True

    def violation(self, mechanism, case, message):
        self.nviol += 1
        fp = str(mechanism)
        if fp not in self.violations and len(self.violations) < 40:
            from . import repo as _repo
            if _repo.DEBUG_LOGGING[0] and isinstance(case, dict):
                case = dict(case, _debug_logging=True)
                message = message + ' [pymodbus loggers at DEBUG]'
            self.violations[fp] = (message, jsonable(case))

    def inconclusive_reason(self, reason):
        self.inconclusive.append(reason)

    # -------------------------------------------------------------- output
    def shard_result(self):
        return {
            'evaluations': self.evaluations, 'distinct': self.distinct, 'samples': self.samples,
            'counters': self.counters, 'known_tally': self.known_tally,
            'violations': self.violations, 'nviol': self.nviol, 'floors': self.floors,
            'inconclusive': self.inconclusive, 'watchdogs': self.watchdogs,
            'observed': self.observed, 'rule': self.rule, 'exhaustive': self.exhaustive,
            'assumptions': self.assumptions,
        }

    def merge(self, res):
        self.evaluations += res['evaluations']
        self.distinct |= res['distinct']
        for s in res['samples']:
            if len(self.samples) < 12:
                self.samples.append(s)
        for k, v in res['counters'].items():
            self.counters[k] = self.counters.get(k, 0) + v
        for k, v in res['known_tally'].items():
            t = self.known_tally.setdefault(k, [0, 0, None])
            t[0] += v[0]
            t[1] += v[1]
            t[2] = t[2] or v[2]
        for k, v in res['violations'].items():
            self.violations.setdefault(k, v)
        self.nviol += res['nviol']
        # floors: sum by name
        byname = {n: [n, v, m] for n, v, m in self.floors}
        for n, v, m in res['floors']:
            if n in byname:
                byname[n][1] += v
            else:
                byname[n] = [n, v, m]
        self.floors = [tuple(x) for x in byname.values()]
        self.inconclusive += res['inconclusive']
        self.watchdogs += res['watchdogs']
        for k, v in res['observed'].items():
            if isinstance(v, (int, float)) and isinstance(self.observed.get(k, 0), (int, float)):
                self.observed[k] = self.observed.get(k, 0) + v
            elif isinstance(v, dict) and isinstance(self.observed.get(k, {}), dict):
                d = self.observed.setdefault(k, {})
                for kk, vv in v.items():
                    if isinstance(vv, (int, float)) and isinstance(d.get(kk, 0), (int, float)):
                        d[kk] = d.get(kk, 0) + vv
                    else:
                        d.setdefault(kk, vv)
            else:
                self.observed.setdefault(k, v)
        self.rule = self.rule or res['rule']
        self.exhaustive = self.exhaustive or res['exhaustive']
        for a in res['assumptions']:
            if a not in self.assumptions:
                self.assumptions.append(a)

    def finish(self):
        wall = time.time() - self.t0
        for name, value, minimum in self.floors:
            if value < minimum:
                self.inconclusive.append('floor %s: observed %d < %d' % (name, value, minimum))
        if self.evaluations and self.watchdogs > 0.02 * self.evaluations:
            self.inconclusive.append('wall-clock watchdog fired in %d of %d cases' % (self.watchdogs, self.evaluations))
        lines = []
        for slug in sorted(self.known_tally):
            n, failed, what = self.known_tally[slug]
            if failed:
                lines.append('KNOWN-FINDING: property=%s %s: %s (%s)'
                             % (self.prop, slug, what, ('%d of %d cases in region failed' % (failed, n)) if n >= failed else ('%d cases failed in region' % failed)))
        replay_paths = []
        if self.violations:
            os.makedirs(os.path.join(OUT, 'replay'), exist_ok=True)
            for fp, (message, case) in list(self.violations.items())[:10]:
                name = '%s-%016x.json' % (self.prop, h64(fp + json.dumps(case, sort_keys=True)))
                path = os.path.join(OUT, 'replay', name)
                with open(path, 'w') as f:
                    json.dump({'property': self.prop, 'mechanism': fp, 'message': message,
                               'seed': self.seed, 'tier': self.tier, 'case': case}, f, indent=1)
                replay_paths.append((path, fp, message))
        if self.violations:
            verdict, code = 'violated', EXIT_VIOLATED
        elif self.inconclusive:
            verdict, code = 'inconclusive', EXIT_INCONCLUSIVE
        else:
            verdict, code = 'held', EXIT_HELD
        if not self.is_replay:
            self.write_evidence(wall, verdict)
        for l in lines:
            print(l)
        for path, fp, message in replay_paths:
            print('VIOLATION property=%s replay=%s' % (self.prop, path))
            print('  mechanism: %s\n  %s' % (fp, message[:600]))
        if verdict == 'inconclusive':
            print('INCONCLUSIVE property=%s reason=%s' % (self.prop, '; '.join(self.inconclusive[:5])))
        if verdict == 'held':
            print('HELD property=%s tier=%s seed=%d evaluations=%d distinct_nontrivial=%d wall=%.1fs'
                  % (self.prop, self.tier, self.seed, self.evaluations, len(self.distinct), wall))
        sys.stdout.flush()
        return code

    def write_evidence(self, wall, verdict):
        os.makedirs(EVID, exist_ok=True)
        ev = {
            'property_id': self.prop, 'tier': self.tier, 'seed': self.seed, 'level': self.level,
            'coverage': {
                'evaluations': self.evaluations,
                'distinct_nontrivial': len(self.distinct),
                'rule': self.rule,
                'samples': self.samples[:12],
                'exhaustive': bool(self.exhaustive),
                'observed': dict(self.observed,
                                 counters=self.counters,
                                 floors={n: {'observed': v, 'minimum': m} for n, v, m in self.floors},
                                 known_regions={s: {'cases_in_region': t[0], 'failed': t[1], 'what': t[2]}
                                                for s, t in sorted(self.known_tally.items())},
                                 distinct_violation_mechanisms=len(self.violations),
                                 watchdog_firings=self.watchdogs,
                                 inconclusive_reasons=self.inconclusive[:10],
                                 verdict=verdict),
            },
            'assumptions': self.assumptions,
            'wall_s': round(wall, 2),
            'violations': self.nviol,
        }
        tmp = os.path.join(EVID, '.%s.%d.tmp' % (self.prop, os.getpid()))
        with open(tmp, 'w') as f:
            json.dump(jsonable(ev) if False else ev, f, indent=1, default=repr)
        os.replace(tmp, os.path.join(EVID, '%s.json' % self.prop))


def run_sharded(prop, tier, seed, level, nshards, timeout, module):
    """Spawn nshards children (subprocess, never multiprocessing.Pool) and merge."""
    os.makedirs(os.path.join(OUT, 'shards'), exist_ok=True)
    procs = []
    for i in range(nshards):
        res = os.path.join(OUT, 'shards', '%s.%d.%d.pkl' % (prop, os.getpid(), i))
        cmd = [sys.executable, os.path.join(ROOT, 'check'), prop, '--tier', tier,
               '--shard', '%d/%d' % (i, nshards), '--shard-out', res]
        env = dict(os.environ, VERIF_SEED=str(seed))
        procs.append((i, res, subprocess.Popen(cmd, env=env, stdout=subprocess.PIPE,
                                               stderr=subprocess.STDOUT)))
    run = Run(prop, tier, seed, level)
    deadline = time.time() + timeout
    for i, res, p in procs:
        try:
            out, _ = p.communicate(timeout=max(1, deadline - time.time()))
        except subprocess.TimeoutExpired:
            p.kill()
            p.communicate()
            run.inconclusive_reason('shard %d timed out' % i)
            continue
        if not os.path.exists(res):
            run.inconclusive_reason('shard %d died (exit %s): %s' % (i, p.returncode,
                                                                    out.decode(errors='replace')[-400:]))
            continue
        with open(res, 'rb') as f:
            run.merge(pickle.load(f))
        os.unlink(res)
    return run
