"""OS doubles for the synchronous clients: virtual clock, fake TCP socket + select, fake UDP
socket, fake serial port (pyserial semantics).  The unmodified pymodbus client code runs on
them; installing/restoring rebinds module globals of pymodbus modules and serial.Serial.

Every transport operation is appended to env.trace as (thread, op, detail, vtime) and is a
yield point for an optional scheduler (env.sched.yield_point(tag))."""
import contextlib
import socket as _socket
import threading
import types

from .. import repo  # noqa: F401
import serial as _pyserial
import pymodbus.client.sync as _cs
import pymodbus.transaction as _tx
import pymodbus.framer.rtu_framer as _rf

OP_COST = 0.0002      # virtual seconds consumed by one OS call


class VirtualClock(object):
    def __init__(self, start=1000.0):
        self.now = start
        self.on_sleep = None

    def time(self):
        # reading the clock takes time too: guarantees progress of busy-wait loops that sleep(0)
        self.now += 2e-5
        return self.now

    def sleep(self, d):
        if d is not None and d < 0:
            raise ValueError('sleep length must be non-negative')      # as time.sleep does
        if d and d > 0:
            self.now += d
        if self.on_sleep is not None:
            self.on_sleep(d)

    def tick(self):
        self.now += OP_COST


class Env(object):
    """One scripted world: clock, trace, the peer, the connections made."""

    def __init__(self, peer=None, sched=None):
        self.clock = VirtualClock()
        self.trace = []
        self.peer = peer
        self.sched = sched
        self.conns = []
        self.ops = 0
        self.op_limit = 200000
        self.connect_script = []       # exceptions to raise on successive connects (None = succeed)
        if sched is not None:
            # sleeping is a pre-emption point too (backoff between retries, RTU silent interval)
            self.clock.on_sleep = lambda d: self.record('sleep', None) if d and d >= 0.05 else None

    def record(self, op, detail=None):
        self.ops += 1
        if self.ops > self.op_limit:
            raise StepWatchdog('more than %d transport operations' % self.op_limit)
        who = self.sched.name_of_current() if self.sched is not None else None
        self.trace.append((who or threading.current_thread().name, op, detail, round(self.clock.now, 6)))
        if self.sched is not None:
            self.sched.yield_point((op, detail if isinstance(detail, int) else None))

    def new_conn(self, kind):
        c = Conn(self, kind, len(self.conns))
        self.conns.append(c)
        return c


class StepWatchdog(BaseException):
    """raised out of the doubles when the step bound is exceeded (decides 'unbounded')"""


class Conn(object):
    """the byte pipe of one connection, shared by the fake OS object and the peer"""

    def __init__(self, env, kind, index):
        self.env, self.kind, self.index = env, kind, index
        self.rx = []                   # [arrival_time, bytes]
        self.written = []              # (vtime, bytes)
        self.closed_by_peer = False
        self.closed = False
        self.fail_send = []            # exceptions for successive sends
        self.fail_recv = []

    # -- peer side
    def deliver(self, data, delay=0.0):
        bt = getattr(self.env, 'byte_time', 0.0)
        if data and bt:
            # a slow serial line: the bytes arrive one at a time (600 baud = 18 ms per character)
            for i, b in enumerate(bytes(data)):
                self.rx.append([self.env.clock.now + delay + (i + 1) * bt, bytes([b])])
        elif data:
            self.rx.append([self.env.clock.now + delay, bytes(data)])

    def peer_close(self, delay=0.0):
        self.closed_by_peer = self.env.clock.now + delay if delay else True

    # -- OS side helpers
    def available(self):
        now = self.env.clock.now
        return sum(len(b) for t, b in self.rx if t <= now)

    def in_flight(self):
        now = self.env.clock.now
        return sum(len(b) for t, b in self.rx if t > now)

    def next_arrival(self):
        now = self.env.clock.now
        ts = [t for t, b in self.rx if t > now]
        if self.closed_by_peer not in (True, False) and self.closed_by_peer > now:
            ts.append(self.closed_by_peer)
        return min(ts) if ts else None

    def eof(self):
        c = self.closed_by_peer
        return c is True or (c is not False and c <= self.env.clock.now)

    def take(self, n):
        now = self.env.clock.now
        out = b''
        self.rx.sort(key=lambda e: e[0])
        for e in self.rx:
            if e[0] > now or len(out) >= n:
                break
            k = n - len(out)
            out += e[1][:k]
            e[1] = e[1][k:]
        self.rx = [e for e in self.rx if e[1]]
        return out

    def wait(self, timeout, need=1):
        """advance virtual time until `need` bytes are available, EOF, or timeout"""
        clock = self.env.clock
        deadline = None if timeout is None else clock.now + timeout
        while self.available() < need and not self.eof():
            nxt = self.next_arrival()
            if nxt is None or (deadline is not None and nxt > deadline):
                if deadline is None:
                    raise StepWatchdog('blocking read without timeout and nothing will ever arrive')
                clock.now = max(clock.now, deadline)
                return
            clock.now = nxt

    def do_write(self, data):
        data = bytes(data)
        self.written.append((self.env.clock.now, data))
        if getattr(self.env, 'echo', False):
            self.deliver(data)                 # a two-wire adaptor that echoes everything the host sends
        if self.env.peer is not None:
            self.env.peer.on_write(self, data)
        return len(data)


def _hook(conn, name, *a):
    peer = conn.env.peer
    fn = getattr(peer, name, None) if peer is not None else None
    if fn is not None:
        fn(conn, *a)


# ------------------------------------------------------------------ TCP
class FakeSocket(object):
    def __init__(self, conn):
        self.conn = conn
        self._closed = False

    def setblocking(self, flag):
        pass

    def settimeout(self, t):
        self.timeout = t

    def send(self, data):
        env = self.conn.env
        env.record('send', len(data))
        env.clock.tick()
        if self._closed:
            raise OSError(9, 'Bad file descriptor')
        _hook(self.conn, 'before_send', data)
        if self.conn.fail_send:
            e = self.conn.fail_send.pop(0)
            if e is not None:
                raise e
        if self.conn.eof():
            raise BrokenPipeError(32, 'Broken pipe')
        return self.conn.do_write(data)

    def recv(self, n):
        env = self.conn.env
        env.record('recv', n)
        env.clock.tick()
        if self._closed:
            raise OSError(9, 'Bad file descriptor')
        _hook(self.conn, 'before_recv')
        if self.conn.fail_recv:
            e = self.conn.fail_recv.pop(0)
            if e is not None:
                raise e
        if self.conn.available():
            return self.conn.take(n)
        if self.conn.eof():
            return b''
        raise BlockingIOError(11, 'Resource temporarily unavailable')

    def close(self):
        self.conn.env.record('close', self.conn.index)
        self._closed = True
        self.conn.closed = True

    def fileno(self):
        return 1000 + self.conn.index


class FakeSelect(object):
    def __init__(self, env):
        self.env = env

    def select(self, r, w, x, timeout=None):
        env = self.env
        env.record('select', None)
        env.clock.tick()
        s = r[0]
        if timeout is not None and timeout < 0:
            timeout = 0
        c = s.conn
        if not (c.available() or c.eof() or c.fail_recv):
            c.wait(timeout)
        if c.available() or c.eof() or c.fail_recv:
            return (list(r), [], [])
        return ([], [], [])


class FakeUdpSocket(object):
    def __init__(self, conn):
        self.conn = conn
        self.timeout = None

    def settimeout(self, t):
        self.timeout = t

    def sendto(self, data, addr):
        env = self.conn.env
        env.record('sendto', len(data))
        env.clock.tick()
        _hook(self.conn, 'before_send', data)
        if self.conn.fail_send:
            e = self.conn.fail_send.pop(0)
            if e is not None:
                raise e
        return self.conn.do_write(data)

    def recvfrom(self, n):
        env = self.conn.env
        env.record('recvfrom', n)
        env.clock.tick()
        _hook(self.conn, 'before_recv')
        if self.conn.fail_recv:
            e = self.conn.fail_recv.pop(0)
            if e is not None:
                raise e
        # datagram semantics: one datagram per call
        c = self.conn
        if not c.available():
            if self.timeout is None:
                nxt = c.next_arrival()
                if nxt is None:
                    raise StepWatchdog('recvfrom blocks forever (no timeout, no datagram will arrive)')
                env.clock.now = nxt
            else:
                c.wait(self.timeout)
        if not c.available():
            raise _socket.timeout('timed out')
        now = env.clock.now
        c.rx.sort(key=lambda e: e[0])
        for i, (t, b) in enumerate(c.rx):
            if t <= now:
                del c.rx[i]
                return b[:n], ('127.0.0.1', 502)
        raise _socket.timeout('timed out')

    def close(self):
        self.conn.closed = True


# ------------------------------------------------------------------ serial
class FakeSerial(object):
    """pyserial semantics: read(n) returns <= n bytes after at most `timeout`; read(0) -> b''."""

    def __init__(self, conn, timeout=None, **kw):
        self.conn = conn
        self.timeout = timeout
        self.is_open = True
        self.interCharTimeout = None
        self.kw = kw

    @property
    def in_waiting(self):
        self.conn.env.record('in_waiting', None)
        self.conn.env.clock.tick()
        if not self.is_open:
            raise _pyserial.SerialException('port not open')
        return self.conn.available()

    def read(self, size=1):
        env = self.conn.env
        env.record('read', size)
        env.clock.tick()
        if not self.is_open:
            raise _pyserial.SerialException('Attempting to use a port that is not open')
        _hook(self.conn, 'before_recv')
        if self.conn.fail_recv:
            e = self.conn.fail_recv.pop(0)
            if e is not None:
                raise e
        if size is None or size <= 0:
            return b''
        if self.conn.available() < size:
            self.conn.wait(self.timeout, need=size)
        return self.conn.take(size)

    def write(self, data):
        env = self.conn.env
        env.record('write', len(data))
        env.clock.tick()
        if not self.is_open:
            raise _pyserial.SerialException('Attempting to use a port that is not open')
        _hook(self.conn, 'before_send', data)
        if self.conn.fail_send:
            e = self.conn.fail_send.pop(0)
            if e is not None:
                raise e
        return self.conn.do_write(data)

    def close(self):
        self.conn.env.record('close', self.conn.index)
        self.is_open = False
        self.conn.closed = True


# ------------------------------------------------------------------ installation
@contextlib.contextmanager
def installed(env):
    """rebind time/select/socket in the pymodbus modules and serial.Serial; restore afterwards"""
    ft = types.SimpleNamespace(time=env.clock.time, sleep=env.clock.sleep)
    saved = (_cs.time, _cs.select, _cs.socket, _tx.time, _rf.time, _pyserial.Serial)

    def create_connection(addr, timeout=None, source_address=None):
        env.record('connect', None)
        env.clock.tick()
        if env.connect_script:
            e = env.connect_script.pop(0)
            if e is not None:
                raise e
        c = env.new_conn('tcp')
        if env.peer is not None and hasattr(env.peer, 'on_connect'):
            env.peer.on_connect(c)
        env.record('connected', c.index)
        return FakeSocket(c)

    def udp_socket(family=None, typ=None, *a):
        env.record('socket', None)
        c = env.new_conn('udp')
        if env.peer is not None and hasattr(env.peer, 'on_connect'):
            env.peer.on_connect(c)
        return FakeUdpSocket(c)

    def serial_ctor(port=None, timeout=None, **kw):
        env.record('open', None)
        env.clock.tick()
        if env.connect_script:
            e = env.connect_script.pop(0)
            if e is not None:
                raise e
        c = env.new_conn('serial')
        if env.peer is not None and hasattr(env.peer, 'on_connect'):
            env.peer.on_connect(c)
        return FakeSerial(c, timeout=timeout, **kw)

    fsock = types.SimpleNamespace(create_connection=create_connection, error=_socket.error, socket=udp_socket,
                                  timeout=_socket.timeout, AF_INET=_socket.AF_INET, AF_INET6=_socket.AF_INET6,
                                  SOCK_DGRAM=_socket.SOCK_DGRAM, SOCK_STREAM=_socket.SOCK_STREAM,
                                  inet_pton=_socket.inet_pton)
    _cs.time, _cs.select, _cs.socket = ft, FakeSelect(env), fsock
    _tx.time, _rf.time = ft, ft
    _pyserial.Serial = serial_ctor
    try:
        yield env
    finally:
        _cs.time, _cs.select, _cs.socket, _tx.time, _rf.time, _pyserial.Serial = saved


_DECOY_CLIENT = [None]
_VENDOR_RSP = []


def make_client(kind, **kw):
    """the client under test - and, alive beside it, a second client object of the process that has registered an application's own
    response classes (client.register(): a vendor function code and its own version of FC3): nothing of that may reach the first"""
    c = _make_client(kind, **dict(kw))
    try:
        if not _VENDOR_RSP:
            from pymodbus.pdu import ModbusResponse
            from pymodbus.register_read_message import ReadHoldingRegistersResponse

            class VendorReadResponse(ReadHoldingRegistersResponse):
                def decode(self, data):
                    self.registers = [0xBEEF]
            ns = {'function_code': 0x41, '_rtu_byte_count_pos': 2, '__init__': lambda self, **k: ModbusResponse.__init__(self, **k), 'encode': lambda self: b'',
                  'decode': lambda self, data: None}
            _VENDOR_RSP.extend([VendorReadResponse, type('VendorResponse_41', (ModbusResponse,), ns)])
        other = _make_client(kind, **dict(kw))
        for cls in _VENDOR_RSP:
            other.register(cls)
        _DECOY_CLIENT[0] = other
    except Exception:  # noqa
        pass
    return c


def _make_client(kind, **kw):
    """kind: tcp | rtu-over-tcp | ascii-over-tcp | binary-over-tcp | udp | rtu | ascii | binary"""
    from pymodbus.transaction import ModbusRtuFramer, ModbusAsciiFramer, ModbusBinaryFramer
    kw.setdefault('timeout', 1)
    if not kind.endswith('-over-tcp'):
        kw.pop('framer_subclass', None)
    if kind == 'tcp':
        return _cs.ModbusTcpClient('10.0.0.1', 502, **kw)
    if kind == 'udp':
        return _cs.ModbusUdpClient('10.0.0.1', 502, **kw)
    if kind.endswith('-over-tcp'):
        fr = {'rtu': ModbusRtuFramer, 'ascii': ModbusAsciiFramer, 'binary': ModbusBinaryFramer}[kind.split('-')[0]]
        if kw.pop('framer_subclass', False):
            fr = type('Site' + fr.__name__, (fr,), {})          # an application's own subclass of the library framer
        return _cs.ModbusTcpClient('10.0.0.1', 502, framer=fr, **kw)
    return _cs.ModbusSerialClient(method=kind, port='/dev/ttyV0', baudrate=kw.pop('baudrate', 9600), **kw)


def framing_of(kind):
    if kind in ('tcp', 'udp'):
        return 'tcp'
    return kind.split('-')[0]
