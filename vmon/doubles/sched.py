"""Deterministic cooperative scheduler over real threads.

Every transport operation of the OS doubles calls yield_point(tag); exactly one registered
thread runs at a time, the controller (main thread) decides which parked thread proceeds.
A schedule is the list of choices made; replaying the list reproduces the trace."""
import _thread
import threading


class Sched(object):
    def __init__(self, chooser):
        self.cv = threading.Condition()
        self.parked = {}
        self.running = None
        self.done = set()
        self.threads = {}
        self.idents = {}             # thread ident -> name (threads are recognised without threading.current_thread(), which would
        #                              register a thread started behind the threading module's back as a _DummyThread)
        self.trace = []
        self.chooser = chooser
        self.lock_epoch = 0
        self.choices = []            # (picked index, number of candidates)
        self.errors = {}

    def spawn(self, name, fn, foreign=False):
        """foreign: the thread is started with _thread.start_new_thread - the way a C extension's callback thread or an embedding
        application's thread looks to Python: it runs Python code but the threading module does not count it"""
        def body():
            self.idents[_thread.get_ident()] = name
            self._park(name, ('start', None))
            try:
                fn()
            except BaseException as e:  # noqa
                self.errors[name] = e
            finally:
                with self.cv:
                    self.done.add(name)
                    self.running = None
                    self.cv.notify_all()
        if foreign:
            self.threads[name] = None
            _thread.start_new_thread(body, ())
            return
        t = threading.Thread(target=body, name=name, daemon=True)
        self.threads[name] = t
        t.start()

    def name_of_current(self):
        return self.idents.get(_thread.get_ident())

    def _park(self, name, tag):
        with self.cv:
            self.parked[name] = tag
            if self.running == name:
                self.running = None
            self.cv.notify_all()
            while self.running != name:
                self.cv.wait()
            del self.parked[name]

    def yield_point(self, tag):
        name = self.idents.get(_thread.get_ident())
        if name in self.threads:
            self.trace.append((name, tag))
            self._park(name, tag)

    def run(self, max_steps=20000, wall_timeout=20.0, quiet=0.5):
        """quiet: a running thread that reaches no yield point for `quiet` wall seconds is taken to be blocked on a
        lock the scheduler does not know; it is set aside (it parks by itself when it gets going again)."""
        steps = 0
        self.blocked_outside = set()
        with self.cv:
            while len(self.done) < len(self.threads):
                waited = 0.0
                while self.running is not None or len(self.parked) + len(self.done) + len(self.blocked_outside - set(self.parked) - self.done) < len(self.threads):
                    if not self.cv.wait(timeout=quiet):
                        waited += quiet
                        if self.running is not None and self.running not in self.parked:
                            self.blocked_outside.add(self.running)      # presumably blocked on an unknown lock
                            self.unknown_lock_blocks = getattr(self, 'unknown_lock_blocks', 0) + 1
                            self.running = None
                            continue
                        if waited >= wall_timeout:
                            return 'WATCHDOG'
                self.blocked_outside -= set(self.parked) | self.done
                if len(self.done) == len(self.threads):
                    break
                cands = sorted(n for n, tag in self.parked.items() if not (tag[0] == 'lockwait' and tag[1] == self.lock_epoch))
                if not cands:
                    if self.blocked_outside - self.done:
                        # everybody we can schedule is waiting; give the externally blocked threads time to show up
                        if not self.cv.wait(timeout=quiet * 4) and not (set(self.parked) & self.blocked_outside):
                            return 'DEADLOCK'
                        continue
                    return 'DEADLOCK'
                if getattr(self.chooser, 'wants_names', False):
                    i = self.chooser(len(self.choices), cands)
                else:
                    i = self.chooser(len(self.choices), len(cands))
                i = max(0, min(i, len(cands) - 1))
                self.choices.append((i, len(cands)))
                self.running = cands[i]
                steps += 1
                self.cv.notify_all()
                if steps > max_steps:
                    return 'STEPS'
        return 'OK'


class SchedLock(object):
    """wraps the client's transaction lock so that a thread that cannot get it parks as lock-blocked"""

    def __init__(self, inner, sched):
        self.inner, self.s = inner, sched
        self.acquisitions = 0

    def __enter__(self):
        self.s.yield_point(('lock', None))          # a thread can be pre-empted right before it takes the lock
        while not self.inner.acquire(blocking=False):
            self.s.yield_point(('lockwait', self.s.lock_epoch))
        self.acquisitions += 1
        return self

    def __exit__(self, *a):
        self.inner.release()
        self.s.lock_epoch += 1

    def acquire(self, blocking=True, timeout=-1):
        if not blocking or (timeout is not None and timeout >= 0):
            got = self.inner.acquire(False)            # try-lock semantics are kept (no waiting under the scheduler)
            if got:
                self.acquisitions += 1
            return got
        self.__enter__()
        return True

    def release(self):
        self.__exit__()


def wrap_locks(sched, *objs):
    """replace every lock-like attribute of the objects (instance or class level) by a SchedLock: blocking on ANY of the
    code's own locks is then visible to the scheduler (deadlocks between two of them included).  Returns {name: SchedLock}."""
    out = {}
    for o in objs:
        for name in dir(o):
            if name.startswith('__'):
                continue
            try:
                v = getattr(o, name)
            except Exception:  # noqa
                continue
            if isinstance(v, SchedLock) or isinstance(v, type) or not (callable(getattr(v, 'acquire', None)) and callable(getattr(v, 'release', None))):
                continue
            w = SchedLock(v, sched)
            try:
                setattr(o, name, w)
            except Exception:  # noqa
                continue
            out['%s.%s' % (type(o).__name__, name)] = w
    return out


def explore(run_one, limit, rng=None, sample=0):
    """Depth-first enumeration of schedules: run_one(chooser) -> (choices, outcome).
    Yields outcome per schedule.  After `limit` exhaustive runs stops; `sample` extra random schedules."""
    stack = [[]]
    runs = 0
    complete = True
    while stack:
        if runs >= limit:
            complete = False
            break
        prefix = stack.pop()

        def chooser(step, ncand, prefix=prefix):
            return prefix[step] if step < len(prefix) else 0
        choices, outcome = run_one(chooser)
        runs += 1
        yield prefix, choices, outcome
        for i in range(len(prefix), len(choices)):
            for alt in range(1, choices[i][1]):
                stack.append([p for p, _ in choices[:i]] + [alt])
    explore.complete = complete
    for _ in range(sample):
        def chooser(step, ncand):
            return rng.randrange(ncand)
        choices, outcome = run_one(chooser)
        yield None, choices, outcome
