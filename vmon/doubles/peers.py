"""Scripted reference peers for the client monitors: a conformant server built from the spec
codec, the reference ADU builder and the register-file model, plus per-attempt fault
behaviours.  No pymodbus code is used to build or parse anything here."""
from ..spec import pdu as S
from ..spec import adu as ADU
from ..spec.pdu import REQ, RSP
from ..spec.regfile import RegFile, DATA_FCS


def full_regfile(value_of=None):
    """a register file with every cell of every table populated (value = f(table, addr))"""
    f = value_of or (lambda t, a: (a * 7 + 3) & 0xFFFF if t in 'ih' else bool((a * 5 + 1) % 3 == 0))
    return RegFile({t: {a: f(t, a) for a in range(0, 65536)} for t in 'cdih'})


class LazyTable(dict):
    """all 65536 addresses populated, values computed on demand (keeps construction cheap)"""

    def __init__(self, t):
        dict.__init__(self)
        self.t = t

    def __contains__(self, a):
        return 0 <= a <= 0xFFFF

    def __missing__(self, a):
        if not 0 <= a <= 0xFFFF:
            raise KeyError(a)
        return ((a * 7 + 3) & 0xFFFF) if self.t in 'ih' else bool((a * 5 + 1) % 3 == 0)


def lazy_regfile():
    r = RegFile({})
    r.t = {t: LazyTable(t) for t in 'cdih'}
    return r


def conformant_reply(regfile, m):
    """spec response message for request m from a conformant server (None = no response)"""
    fc = m['fc']
    if fc in DATA_FCS:
        return regfile.execute(m)
    if fc == 8:
        if m['sub'] == 4:
            return None
        return {'dir': RSP, 'fc': 8, 'sub': m['sub'], 'data': list(m['data']) if m['sub'] in (0, 1, 3, 10, 20) else [0]}
    if fc == 7:
        return {'dir': RSP, 'fc': 7, 'status': 0x55}
    if fc == 11:
        return {'dir': RSP, 'fc': 11, 'status': 0, 'count': 0x0108}
    if fc == 12:
        return {'dir': RSP, 'fc': 12, 'status': 0, 'event_count': 0x0108, 'message_count': 0x0121, 'events': b'\x20\x00'}
    if fc == 17:
        return {'dir': RSP, 'fc': 17, 'identifier': b'refsrv', 'run': 0xFF}
    if fc == 22:
        return regfile.execute(m)
    if fc == 24:
        return {'dir': RSP, 'fc': 24, 'values': [0x01B8, 0x1284]}
    if fc == 43:
        return {'dir': RSP, 'fc': 43, 'read_code': m['read_code'], 'conformity': 0x01, 'more': 0, 'next': 0,
                'objects': [(0, b'vendor'), (1, b'code'), (2, b'1.0')] if m['read_code'] != 4 else [(m['object_id'], b'x')]}
    if fc == 20:
        return {'dir': RSP, 'fc': 20, 'records': [b'\x0d\xfe' * max(0, min(l, 4)) for _, _, l in m['records']]}
    if fc == 21:
        return dict(m, dir=RSP)
    return {'dir': RSP, 'fc': fc | 0x80, 'code': 1}


class ScriptedPeer(object):
    """Answers each received request frame according to the next behaviour of `script`
    (a list of dicts, see BEHAVIOURS); after the script is exhausted every request gets its
    conformant reply ('own')."""

    def __init__(self, framing, regfile=None, script=None, timeout=1.0):
        self.framing = framing
        self.regfile = regfile or lazy_regfile()
        self.script = list(script or [])
        self.i = 0
        self.timeout = timeout
        self.inbuf = {}
        self.requests = []          # (conn index, Frame) every request frame received
        self.events = []            # (attempt index, behaviour kind, request key, own reply bytes)
        self.unparsed = []

    def next_behaviour(self):
        if self.i < len(self.script):
            b = self.script[self.i]
        else:
            b = {'kind': 'own'}
        return b

    # hooks called by the doubles -------------------------------------------------
    def before_send(self, conn, data):
        b = self.next_behaviour()
        if b['kind'] == 'oserror-send':
            self.i += 1
            self.events.append((self.i - 1, 'oserror-send', None, None))
            raise ConnectionResetError(104, 'Connection reset by peer')

    def on_write(self, conn, data):
        buf = self.inbuf.get(conn.index, b'') + data
        frames, pos, err = ADU.parse_stream(self.framing, REQ, buf)
        if err is not None:
            self.unparsed.append(buf)
            buf, frames = b'', []
        else:
            buf = buf[pos:]
        self.inbuf[conn.index] = buf
        for f in frames:
            self.requests.append((conn.index, f))
            self.answer(conn, f)

    # -----------------------------------------------------------------------------
    def own_reply(self, f, mutate=None):
        reply = conformant_reply(self.regfile, f.msg)
        if reply is None:
            return b''
        return ADU.build(self.framing, f.unit if f.unit is not None else 0, S.encode(reply), tid=f.tid or 0, pid=f.pid or 0)

    def answer(self, conn, f):
        b = self.next_behaviour()
        self.i += 1
        kind = b['kind']
        own = None
        if kind in ('own', 'partial', 'late', 'two', 'stale+own', 'own+extra', 'split'):
            own = self.own_reply(f)
        self.events.append((self.i - 1, kind, f.key(), own))
        if kind == 'own':
            conn.deliver(own)
        elif kind == 'exception':
            pdu = bytes([f.pdu[0] | 0x80, b.get('code', 2)])
            conn.deliver(ADU.build(self.framing, f.unit or 0, pdu, tid=f.tid or 0))
        elif kind == 'none':
            pass
        elif kind == 'partial':
            k = max(1, min(len(own) - 1, b.get('k', len(own) // 2)))
            conn.deliver(own[:k])
        elif kind == 'split':
            k = max(1, min(len(own) - 1, b.get('k', len(own) // 2)))
            conn.deliver(own[:k])
            conn.deliver(own[k:], delay=b.get('delay', 0.01))
        elif kind == 'garbage':
            conn.deliver(b['bytes'])
        elif kind == 'frame':
            # a well-formed frame that is not the answer (foreign unit / tid / function code)
            conn.deliver(self.foreign(f, b))
        elif kind == 'stale+own':
            conn.deliver(self.foreign(f, b))
            conn.deliver(own)
        elif kind == 'own+extra':
            conn.deliver(own + b['bytes'])
        elif kind == 'late':
            conn.deliver(own, delay=self.timeout * b.get('factor', 1.5))
        elif kind == 'two':
            conn.deliver(own + own)
        elif kind == 'close':
            conn.peer_close()
        elif kind == 'oserror-recv':
            conn.fail_recv.append(ConnectionResetError(104, 'Connection reset by peer'))
        else:
            raise ValueError(kind)

    def foreign(self, f, b):
        """valid frame differing from the own reply in unit / tid / function code as asked"""
        unit = f.unit if f.unit is not None else 0
        tid = f.tid or 0
        if 'unit' in b:
            unit = b['unit']
        if 'tid_delta' in b:
            tid = (tid + b['tid_delta']) & 0xFFFF
        if 'msg' in b:
            pdu = S.encode(b['msg'])
        else:
            reply = conformant_reply(self.regfile.copy() if hasattr(self.regfile, 'copy') and not isinstance(self.regfile.t.get('c'), LazyTable) else self.regfile, f.msg)
            pdu = S.encode(reply)
        return ADU.build(self.framing, unit, pdu, tid=tid)
