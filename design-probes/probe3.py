import logging; logging.disable(logging.CRITICAL)
import struct
from pymodbus.factory import ServerDecoder, ClientDecoder
from pymodbus.file_message import *
from pymodbus.other_message import *
from pymodbus.mei_message import *
from pymodbus.diag_message import *
from pymodbus.register_read_message import *
from pymodbus.bit_write_message import *
from pymodbus.bit_read_message import *
cd=ClientDecoder(); sd=ServerDecoder()
def rt(m, dec):
    b=bytes([m.function_code])+m.encode()
    try:
        d=dec.decode(b)
    except Exception as e:
        return b.hex(), 'EXC '+repr(e)
    return b.hex(), type(d).__name__, {k:v for k,v in vars(d).items() if k not in('transaction_id','protocol_id','unit_id','skip_encode','check')} if d else None
print(rt(ReadFifoQueueResponse([1,2,3]), cd))
print(rt(ReadFileRecordResponse([FileRecord(record_data=b'\x00\x01\x00\x02')]), cd))
print(rt(ReportSlaveIdResponse(b'abc', True), cd))
print(rt(GetCommEventLogResponse(status=True,message_count=3,event_count=2,events=[1,2,3]), cd))
r=ReadWriteMultipleRegistersResponse([1,2]); b=r.encode(); r.decode(b); r.decode(b); print("rwm decode twice", r.registers)
print(rt(WriteMultipleCoilsRequest(1,[True]*9), sd))
# byte count mismatch write multiple coils
d=sd.decode(bytes([15])+struct.pack('>HHB',0,20,1)+b'\xff'); print("wmc qty20 bc1:", d.values, d.byte_count)
d=sd.decode(bytes([5])+struct.pack('>HH',0,0x1234)); print("wsc 0x1234 ->", d.value)
print(rt(ReturnQueryDataRequest([1,2,3]), sd))
print(rt(ReturnQueryDataResponse([1,2,3]), cd))
print(rt(GetClearModbusPlusRequest(data=3), sd))
x=GetClearModbusPlusRequest(data=3).execute(); print(type(x).__name__, len(x.encode()), GetClearModbusPlusRequest(data=3).get_response_pdu_size())
print(rt(ReadDeviceInformationRequest(1,0), sd))
resp=ReadDeviceInformationResponse(1,{0:b'abc',1:b'de'}); print(resp.encode().hex(), resp.encode().hex())
print(rt(ReadExceptionStatusResponse(0x55), cd))
try: print(sd.decode(bytes([3,0,1])))
except Exception as e: print("truncated server decode raises", repr(e))
print("client truncated:", cd.decode(bytes([3,4,0])))
print(cd.decode(bytes([0x83,2])).__dict__)
print(sd.decode(bytes([0x63,1,2])).__dict__)
print("diag unknown sub", rt(DiagnosticStatusRequest(), sd) if False else sd.decode(bytes([8,0,0x63,0,0])).__class__.__name__)
