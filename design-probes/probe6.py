import logging; logging.disable(logging.CRITICAL)
from pymodbus.device import ModbusControlBlock, ModbusDeviceIdentification
from pymodbus.mei_message import *
from pymodbus.factory import ClientDecoder, ServerDecoder
mcb=ModbusControlBlock()
ident=mcb.Identity
data=ident._ModbusDeviceIdentification__data
def setid(d):
    data.clear(); data.update({i:'' for i in range(9)}); data.update(d)
def chain(read_code, start, limit=20):
    oid=start; pages=[]
    for _ in range(limit):
        req=ServerDecoder().decode(bytes([0x2b])+ReadDeviceInformationRequest(read_code,oid).encode())
        resp=req.execute(None)
        pdu=bytes([resp.function_code])+resp.encode()
        d=ClientDecoder().decode(pdu)
        pages.append((len(pdu), d.more_follows, d.next_object_id, d.number_of_objects, {k:(len(v) if not isinstance(v,list) else [len(x) for x in v]) for k,v in d.information.items()}))
        if d.more_follows!=0xFF: break
        oid=d.next_object_id
    return pages
setid({0:'a'*100,1:'b'*100,2:'c'*100}); print(chain(1,0))
setid({0:'a'*100,1:'b'*100,2:'c'*100,3:'d'*244,4:'e',0x80:'x'*200, 0x81:'y'*100}); print(chain(2,0)); print(chain(3,0)); print(chain(3,0x80)); print(chain(4,3)); print(chain(4,0x90))
setid({0:'a'*245}); print("245:", chain(1,0,limit=4))
setid({0:'a'*244}); print("244:", chain(1,0,limit=4))
setid({0:'a',2:'c'}); print(chain(1,1)); print(chain(1,0)); print(chain(2,5)); print(chain(1,7))
