import logging; logging.disable(logging.CRITICAL)
import struct, traceback
from pymodbus.factory import ServerDecoder, ClientDecoder
from pymodbus.framer.socket_framer import ModbusSocketFramer
from pymodbus.framer.rtu_framer import ModbusRtuFramer
from pymodbus.framer.ascii_framer import ModbusAsciiFramer
from pymodbus.framer.binary_framer import ModbusBinaryFramer
from pymodbus.register_read_message import *
from pymodbus.register_write_message import *
from pymodbus.bit_write_message import *
from pymodbus.file_message import *

def feed(framer_cls, dec, chunks, unit=1, single=True):
    f=framer_cls(dec()); out=[]; exc=[]
    for c in chunks:
        try: f.processIncomingPacket(c, out.append, unit, single=single)
        except Exception as e: exc.append(type(e).__name__)
    return [(type(m).__name__, m.unit_id, getattr(m,'transaction_id',None)) for m in out], exc, len(f._buffer)

req = ReadHoldingRegistersRequest(1, 2, unit=1, transaction=7)
for F in (ModbusSocketFramer, ModbusRtuFramer, ModbusAsciiFramer, ModbusBinaryFramer):
    pkt = F(ServerDecoder()).buildPacket(req)
    print(F.__name__, pkt.hex())
    print("  whole     ", feed(F, ServerDecoder, [pkt]))
    print("  two frames", feed(F, ServerDecoder, [pkt+pkt]))
    print("  bytewise  ", feed(F, ServerDecoder, [pkt[i:i+1] for i in range(len(pkt))]))
    for cut in range(1,len(pkt)):
        r = feed(F, ServerDecoder, [pkt[:cut], pkt[cut:]])
        if len(r[0])!=1 or r[1]: print("  cut",cut, r)
