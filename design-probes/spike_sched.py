import logging; logging.disable(logging.CRITICAL)
import threading, types, socket, random, itertools, sys, time as realtime
import pymodbus.client.sync as cs, pymodbus.transaction as tx, pymodbus.framer.rtu_framer as rf
from pymodbus.factory import ClientDecoder
from pymodbus.framer.socket_framer import ModbusSocketFramer
from pymodbus.register_read_message import *

class Sched:
    """Deterministic cooperative scheduler over real threads. Threads call yield_point(tag)."""
    def __init__(self, chooser):
        self.cv=threading.Condition(); self.parked={}; self.running=None; self.done=set(); self.threads={}; self.trace=[]; self.chooser=chooser; self.lock_released_epoch=0
    def spawn(self, name, fn):
        def body():
            self._park(name,'start')
            try: fn()
            finally:
                with self.cv: self.done.add(name); self.running=None; self.cv.notify_all()
        t=threading.Thread(target=body,name=name,daemon=True); self.threads[name]=t; t.start()
    def _park(self,name,tag):
        with self.cv:
            self.parked[name]=tag
            if self.running==name: self.running=None
            self.cv.notify_all()
            while self.running!=name: self.cv.wait()
            del self.parked[name]
    def yield_point(self,tag):
        name=threading.current_thread().name
        if name in self.threads: self.trace.append((name,tag)); self._park(name,tag)
    def run(self, max_steps=10000):
        steps=0
        with self.cv:
            while len(self.done)<len(self.threads):
                # wait until nobody is running and all live threads parked
                while self.running is not None or len(self.parked)+len(self.done)<len(self.threads):
                    if not self.cv.wait(timeout=5): return 'WATCHDOG'
                if len(self.done)==len(self.threads): break
                cands=sorted(n for n,tag in self.parked.items() if not (tag[0]=='lockwait' and tag[1]==self.lock_released_epoch))
                if not cands: return 'DEADLOCK'
                pick=self.chooser(cands); self.running=pick; steps+=1; self.cv.notify_all()
                if steps>max_steps: return 'STEPS'
        return 'OK'
class SchedLock:
    def __init__(self, inner, sched): self.inner=inner; self.s=sched
    def __enter__(self):
        while not self.inner.acquire(blocking=False):
            self.s.yield_point(('lockwait', self.s.lock_released_epoch))
        return self
    def __exit__(self,*a):
        self.inner.release(); self.s.lock_released_epoch+=1
class VClock:
    def __init__(self): self.now=1000.0
    def time(self): return self.now
    def sleep(self,d): self.now+=max(d,0)
def run_case(nthreads, ntx, chooser, preconnect=True, break_lock=False):
    clk=VClock(); ft=types.SimpleNamespace(time=clk.time, sleep=clk.sleep)
    cs.time=ft; tx.time=ft
    S=Sched(chooser); events=[]
    class FakeSocket:
        n=0
        def __init__(self): FakeSocket.n+=1; self.id=FakeSocket.n; self.rx=b''
        def setblocking(self,b): pass
        def send(self,b):
            S.yield_point(('send',self.id)); events.append((threading.current_thread().name,'send',self.id,bytes(b)))
            tid=b[:2]; addr=int.from_bytes(b[8:10],'big'); r=ReadHoldingRegistersResponse([addr]); r.transaction_id=int.from_bytes(tid,'big'); r.unit_id=b[6]
            self.rx+=ModbusSocketFramer(ClientDecoder()).buildPacket(r); return len(b)
        def recv(self,n):
            S.yield_point(('recv',self.id)); d,self.rx=self.rx[:n],self.rx[n:]; events.append((threading.current_thread().name,'recv',self.id,d)); return d
        def close(self): pass
    class FSel:
        @staticmethod
        def select(r,w,x,t=None):
            s=r[0]
            if s.rx: return (r,[],[])
            clk.now+=(t or 0)+1e-6; return ([],[],[])
    def create_connection(*a,**k):
        S.yield_point(('connect',0)); s=FakeSocket(); S.yield_point(('connected',s.id)); return s
    cs.select=FSel; cs.socket=types.SimpleNamespace(create_connection=create_connection,error=socket.error)
    c=cs.ModbusTcpClient(timeout=1)
    if preconnect: c.socket=FakeSocket()
    if break_lock:
        class Dummy:
            def __enter__(s): return s
            def __exit__(s,*a): pass
        c.transaction._transaction_lock=Dummy()
    else:
        c.transaction._transaction_lock=SchedLock(c.transaction._transaction_lock,S)
    results={}
    for i in range(nthreads):
        def work(i=i):
            for j in range(ntx):
                a=i*100+j
                try: r=c.read_holding_registers(a,1,unit=1); results[(i,j)]=(a,getattr(r,'registers',repr(r)[:60]))
                except Exception as e: results[(i,j)]=(a,'RAISED '+repr(e)[:60])
        S.spawn('T%d'%i,work)
    st=S.run()
    bad=[k for k,(a,v) in results.items() if v!=[a]]
    # mutual exclusion: between a thread's send and its last recv no other thread op
    return st, bad, results, S.trace
# enumerate schedules DFS for 2 threads x 2 tx (preconnected)
def explore(nthreads,ntx,limit,**kw):
    seen=set(); viol=0; stack=[[]]; runs=0
    while stack and runs<limit:
        prefix=stack.pop(); choices=[]
        def chooser(c, prefix=prefix, choices=choices):
            i=len(choices)
            pick = prefix[i] if i<len(prefix) else 0
            choices.append((pick,len(c))); return c[pick]
        st,bad,res,trace=run_case(nthreads,ntx,chooser,**kw); runs+=1
        key=tuple(trace); 
        if key not in seen: seen.add(key)
        if bad or st!='OK': viol+=1; w=(st,bad,{k:res[k] for k in bad})
        # expand alternatives beyond prefix
        for i in range(len(prefix),len(choices)):
            for alt in range(1,choices[i][1]):
                stack.append([p for p,_ in choices[:i]]+[alt])
    return runs,len(seen),viol, (w if viol else None), bool(stack)
t=realtime.time()
print("preconnected 2x2:", explore(2,2,3000)); print(realtime.time()-t)
t=realtime.time()
print("lock removed 2x1:", explore(2,1,300,break_lock=True)[:4]); print(realtime.time()-t)
t=realtime.time()
print("not preconnected 2x1:", explore(2,1,2000,preconnect=False)[:5]); print(realtime.time()-t)
