import logging; logging.disable(logging.CRITICAL)
import types, socket
import pymodbus.client.sync as cs, pymodbus.transaction as tx, pymodbus.framer.rtu_framer as rf
from pymodbus.factory import ClientDecoder
from pymodbus.framer.socket_framer import ModbusSocketFramer
from pymodbus.framer.rtu_framer import ModbusRtuFramer
from pymodbus.register_read_message import *

class VClock:
    def __init__(self): self.now=1000.0; self.sleeps=0
    def time(self): return self.now
    def sleep(self,d): self.now+=max(d,0); self.sleeps+=1
clk=VClock()
faketime=types.SimpleNamespace(time=clk.time, sleep=clk.sleep)
class FakeSocket:
    def __init__(self, peer): self.peer=peer; self.rx=b''; self.tx=[]; self.closed=False; self.ops=[]
    def setblocking(self,b): pass
    def settimeout(self,t): pass
    def send(self,b): self.ops.append(('send',len(b))); self.tx.append(bytes(b)); self.rx+=self.peer(bytes(b)); return len(b)
    def recv(self,n): self.ops.append(('recv',n)); d,self.rx=self.rx[:n],self.rx[n:]; return d
    def close(self): self.closed=True
    def fileno(self): return -1
class FakeSelect:
    @staticmethod
    def select(r,w,x,timeout=None):
        s=r[0]
        if s.rx: return (r,[],[])
        clk.now += max(timeout or 0,0)+1e-6   # nothing will arrive: time passes
        return ([],[],[])
cs.select=FakeSelect; cs.time=faketime; tx.time=faketime; rf.time=faketime
def peer(req):
    tid=req[:2]; r=ReadHoldingRegistersResponse([1,2]); r.transaction_id=int.from_bytes(tid,'big'); r.unit_id=req[6]
    return ModbusSocketFramer(ClientDecoder()).buildPacket(r)[:9]  # short reply
orig=socket.create_connection
cs.socket=types.SimpleNamespace(create_connection=lambda *a,**k: FakeSocket(peer), error=socket.error, socket=socket.socket, AF_INET=socket.AF_INET)
c=cs.ModbusTcpClient(timeout=3)
r=c.read_holding_registers(0,2,unit=1); print(type(r).__name__, r, "vtime", clk.now-1000, c.socket and c.socket.ops)
