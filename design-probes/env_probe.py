import sys, socket, asyncio, warnings
print(sys.version)
# loopback
s=socket.socket(); s.bind(("127.0.0.1",0)); s.listen(1); port=s.getsockname()[1]
c=socket.create_connection(("127.0.0.1",port)); a,_=s.accept(); c.send(b"hi"); print("loopback tcp:", a.recv(2))
u=socket.socket(socket.AF_INET,socket.SOCK_DGRAM); u.bind(("127.0.0.1",0)); u2=socket.socket(socket.AF_INET,socket.SOCK_DGRAM); u2.sendto(b"x",u.getsockname()); print("loopback udp:",u.recvfrom(10))
import pymodbus; print(pymodbus.__file__)
import pymodbus.server.async_io as aio
import pymodbus.server.asynchronous as tw
import pymodbus.server.sync as sy
from pymodbus.datastore import ModbusServerContext, ModbusSlaveContext
async def main():
    ctx=ModbusServerContext(slaves=ModbusSlaveContext(), single=True)
    try:
        srv=aio.ModbusTcpServer(ctx,address=("127.0.0.1",0)); print("aio tcp server constructed")
        srv.server_factory.close()
    except Exception as e: print("aio tcp ctor fail",repr(e))
    try:
        srv=aio.ModbusUdpServer(ctx,address=("127.0.0.1",0)); print("aio udp server constructed")
        try: srv.server_factory.close()
        except Exception as e: print(e)
    except Exception as e: print("aio udp ctor fail",repr(e))
asyncio.run(main())
import twisted; print("twisted", twisted.__version__)
from twisted.test import proto_helpers; print("proto_helpers ok")
import serial; print("pyserial", serial.VERSION)
try:
    import icontract, deal; print("icontract/deal in /venv")
except Exception as e: print("no contracts in /venv:", e)
import hypothesis; print("hypothesis", hypothesis.__version__)
print("sys.monitoring" , hasattr(sys,"monitoring"))
