import logging; logging.disable(logging.CRITICAL)
import asyncio, random, warnings, struct, collections
warnings.simplefilter("ignore")
from pymodbus.datastore import *
from pymodbus.factory import ServerDecoder
from pymodbus.transaction import *
from pymodbus.register_read_message import *; from pymodbus.register_write_message import *
from pymodbus.bit_write_message import *; from pymodbus.bit_read_message import *
from pymodbus.diag_message import *
from pymodbus.device import ModbusControlBlock
import pymodbus.server.sync as sy, pymodbus.server.async_io as aio, pymodbus.server.asynchronous as tw
from twisted.test import proto_helpers
R=random.Random(31)
def sl(): return ModbusSlaveContext(di=ModbusSequentialDataBlock(0,[False]*32), co=ModbusSequentialDataBlock(0,[False]*32), hr=ModbusSequentialDataBlock(0,[0]*32), ir=ModbusSequentialDataBlock(0,[0]*32), zero_mode=True)
def mkctx(single): return ModbusServerContext(slaves=sl(), single=True) if single else ModbusServerContext(slaves={1:sl(),2:sl()}, single=False)
def dump(ctx): return {u:{k:list(b.values) for k,b in s.store.items()} for u,s in ctx}
def parse_mbap(b):
    out=[]; o=0
    while o<len(b):
        if len(b)-o<8: return out+['TRAILING']
        tid,pid,L,uid=struct.unpack('>HHHB',b[o:o+7]); out.append((tid,uid,b[o+7],b[o+7:o+6+L])); o+=6+L
    return out
def req():
    u=R.choice([1,1,2,9]); t=R.randrange(1,65536); k=R.randrange(6)
    if k==0: m=ReadHoldingRegistersRequest(R.randrange(40),R.randrange(0,6))
    elif k==1: m=WriteSingleRegisterRequest(R.randrange(40),R.randrange(65536))
    elif k==2: m=WriteMultipleCoilsRequest(R.randrange(40),[True]*R.randrange(1,5))
    elif k==3: m=ReadCoilsRequest(R.randrange(40),R.randrange(0,20))
    elif k==4: m=ReturnQueryDataRequest(R.randrange(65536))
    else: m=MaskWriteRegisterRequest(R.randrange(40),R.randrange(65536),0)
    m.unit_id=u; m.transaction_id=t; return m
class Srv: pass
class FakeSock:
    def __init__(self, chunks): self.chunks=list(chunks); self.out=[]
    def recv(self,n): return self.chunks.pop(0) if self.chunks else b''
    def send(self,b): self.out.append(bytes(b)); return len(b)
class FT:
    def __init__(self): self.out=[]; self.closed=False
    def get_extra_info(self,k): return ("127.0.0.1",9999)
    def write(self,b): self.out.append(bytes(b))
    def close(self): self.closed=True
def run_sync(ctx,chunks,ign):
    s=Srv(); s.framer=ModbusSocketFramer; s.decoder=ServerDecoder(); s.context=ctx; s.threads=[]; s.broadcast_enable=False; s.ignore_missing_slaves=ign
    fs=FakeSock(chunks); sy.ModbusConnectedRequestHandler(fs,("x",1),s); return b''.join(fs.out)
def run_aio(ctx,chunks,ign):
    async def go():
        s=Srv(); s.framer=ModbusSocketFramer; s.decoder=ServerDecoder(); s.context=ctx; s.broadcast_enable=False; s.ignore_missing_slaves=ign; s.active_connections={}
        h=aio.ModbusConnectedRequestHandler(s); ft=FT(); h.connection_made(ft)
        for c in chunks:
            h.data_received(c)
            while not h.receive_queue.empty(): await asyncio.sleep(0)
            await asyncio.sleep(0)
        h.connection_lost(None); await asyncio.sleep(0)
        return b''.join(ft.out)
    return asyncio.run(go())
def run_tw(ctx,chunks,ign):
    fac=tw.ModbusServerFactory(ctx, framer=ModbusSocketFramer, ignore_missing_slaves=ign); p=fac.buildProtocol(None); tr=proto_helpers.StringTransport(); p.makeConnection(tr)
    for c in chunks:
        try: p.dataReceived(c)
        except Exception as e: break
    return tr.value()
res=collections.Counter(); ex={}
for it in range(1500):
    single=R.random()<.5; ign=R.random()<.5; group=R.choice([1,1,2,3])
    ms=[req() for _ in range(R.randrange(1,7))]
    pk=[ModbusSocketFramer(ServerDecoder()).buildPacket(m) for m in ms]
    chunks=[b''.join(pk[i:i+group]) for i in range(0,len(pk),group)]
    foreign_followed = (not single) and any(any(m.unit_id==9 for m in ms[i:i+group][:-1]) for i in range(0,len(ms),group))
    outs={}
    for name,fn in (('sync',run_sync),('aio',run_aio),('tw',run_tw)):
        ModbusControlBlock().ListenOnly=False
        ctx=mkctx(single); outs[name]=(fn(ctx,list(chunks),ign), dump(ctx))
    # expectations: one response per request to hosted unit (single: all); missing unit: none (framer filter) in multi mode
    exp=[m for m in ms if single or m.unit_id in (1,2)]
    tag='foreign-followed' if foreign_followed else 'clean'
    for name,(o,d) in outs.items():
        r=parse_mbap(o)
        ok=len(r)==len(exp) and all(x!='TRAILING' and x[0]==m.transaction_id and x[1]==m.unit_id and (x[2]&0x7f)==m.function_code for x,m in zip(r,exp))
        res[(name,tag,'ok' if ok else 'FAIL')]+=1
        if not ok: ex.setdefault((name,tag),([(type(m).__name__,m.unit_id) for m in ms],group,single,ign,[x if x=='TRAILING' else x[:3] for x in r]))
    same = outs['sync']==outs['aio']==outs['tw']
    res[('all-equal',tag,same)]+=1
    if not same: ex.setdefault(('neq',tag),([(type(m).__name__,m.unit_id) for m in ms],group,single,ign,{k:v[0].hex() for k,v in outs.items()}))
for k,v in sorted(res.items(),key=str): print(k,v)
for k,v in ex.items(): print(k,v)
