import logging; logging.disable(logging.CRITICAL)
import asyncio, time, warnings
warnings.simplefilter("ignore")
from pymodbus.datastore import *
from pymodbus.factory import ServerDecoder, ClientDecoder
from pymodbus.transaction import *
from pymodbus.register_read_message import *
from pymodbus.register_write_message import *
import pymodbus.server.sync as sy, pymodbus.server.async_io as aio, pymodbus.server.asynchronous as tw
from twisted.test import proto_helpers

def mkctx():
    sl=lambda: ModbusSlaveContext(di=ModbusSequentialDataBlock(0,[False]*32), co=ModbusSequentialDataBlock(0,[False]*32), hr=ModbusSequentialDataBlock(0,[0]*32), ir=ModbusSequentialDataBlock(0,[0]*32), zero_mode=True)
    return ModbusServerContext(slaves={1:sl(),2:sl()}, single=False)

class FakeSock:
    def __init__(self, chunks): self.chunks=list(chunks); self.out=[]
    def recv(self,n): return self.chunks.pop(0) if self.chunks else b''
    def send(self,b): self.out.append(bytes(b)); return len(b)
    def close(self): pass
def reqs(F):
    f=F(ServerDecoder())
    ms=[WriteSingleRegisterRequest(3,0x1234,unit=1,transaction=5), ReadHoldingRegistersRequest(0,5,unit=1,transaction=6), ReadHoldingRegistersRequest(0,5,unit=2,transaction=7), ReadHoldingRegistersRequest(0,5,unit=9,transaction=8)]
    return [f.buildPacket(m) for m in ms]

# sync TCP handler, in-process
t0=time.time()
ctx=mkctx(); srv=sy.ModbusTcpServer(ctx, framer=ModbusSocketFramer, address=("127.0.0.1",0))
fs=FakeSock(reqs(ModbusSocketFramer)); h=srv.handler(fs,("127.0.0.1",1),srv); print("sync tcp  ", [o.hex() for o in fs.out]); srv.server_close()
# sync serial-style handler with ascii
class Srv: pass
s=Srv(); s.framer=ModbusAsciiFramer; s.decoder=ServerDecoder(); s.context=mkctx(); s.threads=[]; s.broadcast_enable=False; s.ignore_missing_slaves=False
class SerSock(FakeSock):
    def __init__(self,chunks,h=None): super().__init__(chunks); self.h=None
    def recv(self,n):
        if self.chunks: return self.chunks.pop(0)
        self.h.running=False; return b''
fs=SerSock(reqs(ModbusAsciiFramer)); h=sy.CustomSingleRequestHandler(fs,("x","x"),s); fs.h=h; h.handle(); print("sync ser  ", [o for o in fs.out])
# sync UDP handler
ctx=mkctx(); s.context=ctx; s.framer=ModbusSocketFramer
class USock:
    def __init__(self): self.out=[]
    def sendto(self,b,a): self.out.append((bytes(b),a))
for p in reqs(ModbusSocketFramer)[:2]:
    us=USock(); h=sy.ModbusDisconnectedRequestHandler((p,us),("1.2.3.4",5),s); print("sync udp  ", [(o.hex(),a) for o,a in us.out])

# asyncio TCP handler
class FT:
    def __init__(self): self.out=[]; self.closed=False
    def get_extra_info(self,k): return ("127.0.0.1",9999)
    def write(self,b): self.out.append(bytes(b))
    def close(self): self.closed=True
    def sendto(self,b,addr=None): self.out.append((bytes(b),addr))
async def aio_tcp():
    srv=aio.ModbusTcpServer(mkctx(), framer=ModbusSocketFramer, address=("127.0.0.1",0)); srv.server_factory.close()
    h=aio.ModbusConnectedRequestHandler(srv); ft=FT(); h.connection_made(ft)
    for p in reqs(ModbusSocketFramer): h.data_received(p)
    while not h.receive_queue.empty(): await asyncio.sleep(0)
    await asyncio.sleep(0)
    print("aio tcp   ", [o.hex() for o in ft.out]); h.connection_lost(None); await asyncio.sleep(0)
    # datagram handler with stub owner
    o=Srv(); o.framer=ModbusSocketFramer; o.decoder=ServerDecoder(); o.context=mkctx(); o.broadcast_enable=False; o.ignore_missing_slaves=False
    h=aio.ModbusDisconnectedRequestHandler(o); ft=FT(); h.connection_made(ft)
    for p in reqs(ModbusSocketFramer)[:2]: h.datagram_received(p,("9.9.9.9",1))
    while not h.receive_queue.empty(): await asyncio.sleep(0)
    await asyncio.sleep(0)
    print("aio udp   ", [(o.hex(),a) for o,a in ft.out]); h.handler_task.cancel()
asyncio.run(aio_tcp())
# twisted TCP
fac=tw.ModbusServerFactory(mkctx(), framer=ModbusSocketFramer); p=fac.buildProtocol(None); tr=proto_helpers.StringTransport(); p.makeConnection(tr)
for pk in reqs(ModbusSocketFramer): p.dataReceived(pk)
print("tw tcp    ", tr.value().hex())
up=tw.ModbusUdpProtocol(mkctx(), framer=ModbusSocketFramer); ut=proto_helpers.FakeDatagramTransport(); up.makeConnection(ut)
try:
    up.datagramReceived(reqs(ModbusSocketFramer)[0],("1.1.1.1",1)); print("tw udp", ut.written)
except Exception as e: print("tw udp raised", repr(e))
print("elapsed", time.time()-t0)
