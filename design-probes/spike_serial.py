import logging; logging.disable(logging.CRITICAL)
import types, time as realtime
import pymodbus.client.sync as cs, pymodbus.transaction as tx, pymodbus.framer.rtu_framer as rf
from pymodbus.factory import ClientDecoder, ServerDecoder
from pymodbus.transaction import *
from pymodbus.register_read_message import *
from pymodbus.bit_read_message import *
from pymodbus.pdu import ExceptionResponse
from pymodbus.datastore import *
class VClock:
    def __init__(self): self.now=1000.0
    def time(self): return self.now
    def sleep(self,d): self.now+=max(d,0)
clk=VClock(); ft=types.SimpleNamespace(time=clk.time, sleep=clk.sleep)
cs.time=ft; tx.time=ft; rf.time=ft
FR={'rtu':ModbusRtuFramer,'ascii':ModbusAsciiFramer,'binary':ModbusBinaryFramer}
class FakeSerial:
    def __init__(self, method, ctx, timeout): self.F=FR[method]; self.ctx=ctx; self.rx=b''; self.reads=[]; self.writes=[]; self.timeout=timeout; self.is_open=True
    @property
    def in_waiting(self): return len(self.rx)
    def write(self,b):
        self.writes.append(bytes(b)); f=self.F(ServerDecoder()); out=[]
        def ex(req):
            resp=req.execute(self.ctx); resp.unit_id=req.unit_id; resp.transaction_id=req.transaction_id; out.append(f.buildPacket(resp))
        f.processIncomingPacket(bytes(b), ex, [0], single=True)
        self.rx+=b''.join(out); return len(b)
    def read(self,n):
        self.reads.append(n)
        if len(self.rx)<n: clk.now+=self.timeout
        d,self.rx=self.rx[:n],self.rx[n:]; return d
    def close(self): self.is_open=False
ctx=ModbusSlaveContext(zero_mode=True)
for method in ('rtu','ascii','binary'):
    c=cs.ModbusSerialClient(method=method, timeout=1, baudrate=9600); fs=FakeSerial(method, ctx, 1); c.socket=fs
    t=clk.now
    r=c.read_holding_registers(0,3,unit=5); print(method, type(r).__name__, getattr(r,'registers',None), 'unit',getattr(r,'unit_id',None), 'reads',fs.reads, 'vt',round(clk.now-t,4))
    fs.reads.clear(); t=clk.now
    r=c.read_coils(0,13,unit=5); print(method, type(r).__name__, len(getattr(r,'bits',[])), 'reads',fs.reads,'vt',round(clk.now-t,4))
    fs.reads.clear(); t=clk.now
    r=c.read_holding_registers(0,200,unit=5); print(method, type(r).__name__, getattr(r,'exception_code',None), 'reads',fs.reads,'vt',round(clk.now-t,4), 'left', len(fs.rx))
