import logging; logging.disable(logging.CRITICAL)
import struct
from pymodbus.client.sync import ModbusTcpClient, ModbusSerialClient
from pymodbus.factory import ServerDecoder, ClientDecoder
from pymodbus.framer.socket_framer import ModbusSocketFramer
from pymodbus.framer.rtu_framer import ModbusRtuFramer
from pymodbus.register_read_message import *
from pymodbus.bit_read_message import *
from pymodbus.pdu import ExceptionResponse

class Script:
    def __init__(self, c, replies):
        self.c=c; self.sent=[]; self.rx=b''; self.replies=list(replies)
        c.socket=self
        c._send=self.send; c._recv=self.recv
    def send(self,b):
        self.sent.append(bytes(b))
        if self.replies:
            r=self.replies.pop(0)
            self.rx += r(b) if callable(r) else r
        return len(b)
    def recv(self,n):
        if n is None: n=len(self.rx)
        d,self.rx=self.rx[:n],self.rx[n:]; return d
    def close(self): pass

def tcp_reply(tid, uid, resp):
    resp.transaction_id=tid; resp.unit_id=uid
    return ModbusSocketFramer(ClientDecoder()).buildPacket(resp)
def show(r):
    return (type(r).__name__, getattr(r,'transaction_id',None), getattr(r,'unit_id',None), getattr(r,'registers',getattr(r,'bits',None)), str(r) if isinstance(r,Exception) else '')
# 1. correct reply
c=ModbusTcpClient(); s=Script(c,[lambda b: tcp_reply(1,1,ReadHoldingRegistersResponse([5,6]))])
print("ok      ", show(c.read_holding_registers(0,2,unit=1)), [x.hex() for x in s.sent])
# 2. stale tid reply
c=ModbusTcpClient(); s=Script(c,[lambda b: tcp_reply(99,1,ReadHoldingRegistersResponse([7,7]))])
print("staletid", show(c.read_holding_registers(0,2,unit=1)))
# 3. wrong function
c=ModbusTcpClient(); s=Script(c,[lambda b: tcp_reply(1,1,ReadCoilsResponse([True]*8))])
print("wrongfc ", show(c.read_holding_registers(0,2,unit=1)))
# 4. wrong unit
c=ModbusTcpClient(); s=Script(c,[lambda b: tcp_reply(1,9,ReadHoldingRegistersResponse([7,7]))])
print("wrongun ", show(c.read_holding_registers(0,2,unit=1)))
# 5. empty
for roe,roi in ((False,False),(True,False),(False,True),(True,True)):
    c=ModbusTcpClient(retries=3,retry_on_empty=roe,retry_on_invalid=roi, backoff=0.0001); s=Script(c,[b'',b'',lambda b: tcp_reply(c.transaction.tid,1,ReadHoldingRegistersResponse([1,2]))])
    try: r=show(c.read_holding_registers(0,2,unit=1))
    except Exception as e: r='RAISED '+repr(e)
    print("empty roe=%s roi=%s"%(roe,roi), r, "sent",len(s.sent))
# 6. garbage
c=ModbusTcpClient(); s=Script(c,[b'\x00\x01\x00\x00\x00\x03\x01\x03\x04'])
try: print("trunc   ", show(c.read_holding_registers(0,2,unit=1)))
except Exception as e: print("trunc RAISED", repr(e))
c=ModbusTcpClient(); s=Script(c,[b'\xde\xad\xbe\xef\x00\x00\x00\x00\x00\x00'])
try: print("garbage ", show(c.read_holding_registers(0,2,unit=1)))
except Exception as e: print("garbage RAISED", repr(e))
