import logging; logging.disable(logging.CRITICAL)
import random, struct, collections, time
from pymodbus.datastore import *
from pymodbus.factory import ServerDecoder
R=random.Random(21)
LIM={1:2000,2:2000,3:125,4:125,15:1968,16:123}
TBL={1:'c',2:'d',3:'h',4:'i',5:'c',6:'h',15:'c',16:'h',22:'h',23:'h'}
def bits(bs,n): return [(bs[i//8]>>(i%8))&1==1 for i in range(n)]
def packbits(v):
    out=bytearray((len(v)+7)//8)
    for i,b in enumerate(v):
        if b: out[i//8]|=1<<(i%8)
    return bytes(out)
class Model:
    def __init__(self,layout,zero): self.t={k:dict(v) for k,v in layout.items()}; self.off=0 if zero else 1
    def ok(self,k,a,n): return all((a+self.off+i) in self.t[k] for i in range(n))
    def exc(self,fc,c): return bytes([fc|0x80,c])
    def run(self,pdu):
        fc=pdu[0]; o=self.off
        if fc in(1,2,3,4):
            a,n=struct.unpack('>HH',pdu[1:5])
            if not 1<=n<=LIM[fc]: return self.exc(fc,3)
            if not self.ok(TBL[fc],a,n): return self.exc(fc,2)
            vals=[self.t[TBL[fc]][a+o+i] for i in range(n)]
            if fc<3: d=packbits([bool(v) for v in vals]); return bytes([fc,len(d)])+d
            return bytes([fc,2*n])+b''.join(struct.pack('>H',v) for v in vals)
        if fc==5:
            a,v=struct.unpack('>HH',pdu[1:5])
            if v not in(0,0xFF00): return self.exc(fc,3)
            if not self.ok('c',a,1): return self.exc(fc,2)
            self.t['c'][a+o]=(v==0xFF00); return pdu
        if fc==6:
            a,v=struct.unpack('>HH',pdu[1:5])
            if not self.ok('h',a,1): return self.exc(fc,2)
            self.t['h'][a+o]=v; return pdu
        if fc==15:
            a,n,bc=struct.unpack('>HHB',pdu[1:6])
            if not 1<=n<=1968 or bc!=(n+7)//8: return self.exc(fc,3)
            if not self.ok('c',a,n): return self.exc(fc,2)
            for i,b in enumerate(bits(pdu[6:],n)): self.t['c'][a+o+i]=b
            return pdu[:5]
        if fc==16:
            a,n,bc=struct.unpack('>HHB',pdu[1:6])
            if not 1<=n<=123 or bc!=2*n: return self.exc(fc,3)
            if not self.ok('h',a,n): return self.exc(fc,2)
            for i in range(n): self.t['h'][a+o+i]=struct.unpack('>H',pdu[6+2*i:8+2*i])[0]
            return pdu[:5]
        if fc==22:
            a,am,om=struct.unpack('>HHH',pdu[1:7])
            if not self.ok('h',a,1): return self.exc(fc,2)
            cur=self.t['h'][a+o]; self.t['h'][a+o]=(cur&am)|(om&~am&0xffff); return pdu
        if fc==23:
            ra,rn,wa,wn,bc=struct.unpack('>HHHHB',pdu[1:10])
            if not 1<=rn<=125 or not 1<=wn<=121 or bc!=2*wn: return self.exc(fc,3)
            if not self.ok('h',wa,wn) or not self.ok('h',ra,rn): return self.exc(fc,2)
            for i in range(wn): self.t['h'][wa+o+i]=struct.unpack('>H',pdu[10+2*i:12+2*i])[0]
            return bytes([fc,2*rn])+b''.join(struct.pack('>H',self.t['h'][ra+o+i]) for i in range(rn))
        return self.exc(fc,1)
def gen(size_hint):
    fc=R.choice([1,2,3,4,5,6,15,16,22,23,R.choice([9,10,19,25,99])])
    a=R.choice([0,1,R.randrange(size_hint+4),size_hint-1,size_hint,65535])
    if fc in(1,2,3,4): return bytes([fc])+struct.pack('>HH',a,R.choice([0,1,2,R.randrange(1,12),LIM[fc],LIM[fc]+1]))
    if fc==5: return bytes([fc])+struct.pack('>HH',a,R.choice([0,0xFF00,0xFF00,0,1,0x00FF,R.randrange(65536)]))
    if fc==6: return bytes([fc])+struct.pack('>HH',a,R.randrange(65536))
    if fc==15:
        n=R.choice([0,1,7,8,9,R.randrange(1,30)]); bc=(n+7)//8 if R.random()<.9 else R.randrange(0,5); data=bytes(R.randrange(256) for _ in range(bc))
        return bytes([fc])+struct.pack('>HHB',a,n,bc)+data
    if fc==16:
        n=R.choice([0,1,2,R.randrange(1,8)]); bc=2*n if R.random()<.9 else R.randrange(0,20); data=bytes(R.randrange(256) for _ in range(bc))
        return bytes([fc])+struct.pack('>HHB',a,n,bc)+data
    if fc==22: return bytes([fc])+struct.pack('>HHH',a,R.randrange(65536),R.randrange(65536))
    if fc==23:
        wn=R.choice([0,1,2,R.randrange(1,6)]); bc=2*wn if R.random()<.9 else R.randrange(0,12); data=bytes(R.randrange(256) for _ in range(bc))
        return bytes([fc])+struct.pack('>HHHHB',a,R.choice([0,1,3,125,126]),R.randrange(size_hint+2),wn,bc)+data
    return bytes([fc])+b'\x00\x01\x00\x01'
sd=ServerDecoder(); mism=collections.Counter(); ex={}; steps=0; t=time.time()
for h in range(1500):
    zero=R.random()<.5; start=R.choice([0,1,7]); size=R.randrange(1,40); sparse=R.random()<.3
    lay={}; blocks={}
    for k,isbit in (('c',1),('d',1),('h',0),('i',0)):
        keys=sorted(R.sample(range(start,start+size+10),size)) if sparse else list(range(start,start+size))
        vals={a:(R.random()<.5 if isbit else R.randrange(65536)) for a in keys}
        lay[k]=vals
        blocks[k]=ModbusSparseDataBlock(dict(vals)) if sparse else ModbusSequentialDataBlock(start,[vals[a] for a in keys])
    ctx=ModbusSlaveContext(co=blocks['c'],di=blocks['d'],hr=blocks['h'],ir=blocks['i'],zero_mode=zero)
    m=Model(lay,zero)
    for s in range(25):
        pdu=gen(start+size); steps+=1
        try:
            req=sd.decode(pdu); resp=req.execute(ctx); got=bytes([resp.function_code])+resp.encode()
        except Exception as e: got=('EXC '+type(e).__name__).encode()
        exp=m.run(pdu)
        store={k:dict(iter(blocks[k])) for k in blocks}
        key=None
        if got!=exp: key=('resp',pdu[0], exp[:2].hex() if exp[0]&0x80 else 'normal', got[:2].hex() if got[:1] and got[0]&0x80 else got[:3])
        elif store!=m.t: key=('store',pdu[0])
        if key:
            mism[key]+=1; ex.setdefault(key,(pdu.hex(),exp.hex()[:40],got.hex()[:40] if isinstance(got,bytes) else got, zero,start,size,sparse))
            m.t={k:dict(v) for k,v in store.items()}  # resync model to keep going
print("steps",steps,"time",round(time.time()-t,2))
for k,v in sorted(mism.items(),key=str): print(k,v, ex[k])
