import logging; logging.disable(logging.CRITICAL)
import struct, random
from pymodbus.factory import ServerDecoder, ClientDecoder
from pymodbus.framer.socket_framer import ModbusSocketFramer
from pymodbus.framer.rtu_framer import ModbusRtuFramer
from pymodbus.framer.ascii_framer import ModbusAsciiFramer
from pymodbus.framer.binary_framer import ModbusBinaryFramer
from pymodbus.register_read_message import *
from pymodbus.register_write_message import *
def run(F, chunks, unit=[1], single=False):
    f=F(ServerDecoder()); out=[]; exc=[]
    for c in chunks:
        try: f.processIncomingPacket(c, out.append, unit, single=single)
        except Exception as e: exc.append(type(e).__name__)
    return [ (type(m).__name__, m.unit_id, getattr(m,'address',None)) for m in out], exc, len(f._buffer)
def pk(F, m): return F(ServerDecoder()).buildPacket(m)
good=lambda a: WriteSingleRegisterRequest(a, 0x55, unit=1)
for F in (ModbusRtuFramer, ModbusAsciiFramer, ModbusBinaryFramer):
    p=pk(F, good(1)); bad=bytearray(p); bad[4]^=0x01; bad=bytes(bad)
    print(F.__name__)
    print("  bad-check then 3 good (sep reads):", run(F, [bad, pk(F,good(2)), pk(F,good(3)), pk(F,good(4))]))
    print("  foreign unit then 2 good          :", run(F, [pk(F, WriteSingleRegisterRequest(9,1,unit=7)), pk(F,good(2)), pk(F,good(3))]))
    print("  truncated then good               :", run(F, [p[:5], pk(F,good(2)), pk(F,good(3)), pk(F,good(4))]))
    print("  noise then good                   :", run(F, [b'\x13\x37\x99', pk(F,good(2)), pk(F,good(3)), pk(F,good(4))]))
    # single bit flips delivered?
    deliv=0
    for i in range(len(p)*8):
        b=bytearray(p); b[i//8]^=1<<(i%8)
        r=run(F,[bytes(b)])
        if r[0]: deliv+=1; ex=(i,r)
    print("  single bit flips delivering a message:", deliv, "of", len(p)*8, ex if deliv else '')
# ascii nonhex
print(run(ModbusAsciiFramer, [b':01ZZ\r\n']))
print(run(ModbusAsciiFramer, [b':\r\n']))
# payload containing braces in binary
m=WriteSingleRegisterRequest(0x7b7d, 0x7d7b, unit=1); p=pk(ModbusBinaryFramer,m); print("binary braces", p.hex(), run(ModbusBinaryFramer,[p]))
m=WriteSingleRegisterRequest(1, 2, unit=0x7d); p=pk(ModbusBinaryFramer,m); print("binary uid 7d", p.hex(), run(ModbusBinaryFramer,[p],unit=[0x7d]))
# ascii payload LF etc fine. TCP len mismatch
p=pk(ModbusSocketFramer, good(1)); 
for L in (0,1,2,5,7,300,65535):
    q=p[:4]+struct.pack('>H',L)+p[6:]; print("tcp len",L, run(ModbusSocketFramer,[q, p]))
print("tcp pid!=0", run(ModbusSocketFramer,[p[:2]+b'\x12\x34'+p[4:]]))
