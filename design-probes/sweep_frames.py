import logging; logging.disable(logging.CRITICAL)
import sys; sys.argv=['x']
exec(open('sweep_rt.py').read().split("issues={}")[0])
from pymodbus.framer.socket_framer import ModbusSocketFramer
from pymodbus.framer.rtu_framer import ModbusRtuFramer
from pymodbus.framer.ascii_framer import ModbusAsciiFramer
from pymodbus.framer.binary_framer import ModbusBinaryFramer
from pymodbus.framer.tls_framer import ModbusTlsFramer
issues={}
def note(F,cls,what): issues.setdefault((F.__name__,cls.__name__),{}).setdefault(what,0); issues[(F.__name__,cls.__name__)][what]+=1
total={}
for F in (ModbusSocketFramer, ModbusRtuFramer, ModbusAsciiFramer, ModbusBinaryFramer, ModbusTlsFramer):
  for dec,Dec in((sd,ServerDecoder),(cd,ClientDecoder)):
    lk,sub=tables(dec)
    classes=set(lk.values())|{c for d in sub.values() for c in d.values()}
    for cls in sorted(classes,key=lambda c:c.__name__):
        if cls.__name__.startswith('DiagnosticStatus'): continue
        for _ in range(40):
            m=mk(cls); m.unit_id=R.choice([1,2,17,100,200]); m.transaction_id=R.randrange(65536)
            try: e=m.encode()
            except Exception: continue
            if len(e)+1>253: continue
            pkt=F(Dec()).buildPacket(m)
            esc = (F is ModbusBinaryFramer) and (0x7b in pkt[1:-1] or 0x7d in pkt[1:-1])
            f=F(Dec()); out=[]
            total[(F.__name__,cls.__name__)]=total.get((F.__name__,cls.__name__),0)+1
            try: f.processIncomingPacket(pkt,out.append,[m.unit_id],single=False)
            except Exception as ex: note(F,cls,('esc ' if esc else '')+'raises '+type(ex).__name__); continue
            if len(out)!=1: note(F,cls,('esc ' if esc else '')+'delivered %d'%len(out)); continue
            d=out[0]
            if type(d) is not cls: note(F,cls,'type '+type(d).__name__)
            elif d.encode()!=e and cls.__name__ not in ('x',): note(F,cls,'fields differ(reencode)')
            if F is not ModbusTlsFramer and d.unit_id!=m.unit_id: note(F,cls,'unit')
            if F is ModbusSocketFramer and d.transaction_id!=m.transaction_id: note(F,cls,'tid')
for k,v in sorted(issues.items()): print(k, v, 'of', total[k])
