import logging; logging.disable(logging.CRITICAL)
from twisted.test import proto_helpers
from pymodbus.client.asynchronous.twisted import ModbusClientProtocol, ModbusSerClientProtocol
from pymodbus.factory import ClientDecoder, ServerDecoder
from pymodbus.framer.socket_framer import ModbusSocketFramer
from pymodbus.framer.rtu_framer import ModbusRtuFramer
from pymodbus.register_read_message import *
def reply(tid, uid, vals):
    r=ReadHoldingRegistersResponse(vals); r.transaction_id=tid; r.unit_id=uid
    return ModbusSocketFramer(ClientDecoder()).buildPacket(r)
p=ModbusClientProtocol(); t=proto_helpers.StringTransport(); p.makeConnection(t)
res={}
ds=[]
for i in range(3):
    d=p.read_holding_registers(i,1,unit=1); ds.append(d)
    d.addCallbacks(lambda r,i=i: res.setdefault(i,[]).append(('ok',r.transaction_id,r.registers)), lambda f,i=i: res.setdefault(i,[]).append(('err',f.type.__name__)))
print(t.value().hex())
p.dataReceived(reply(3,1,[33])+reply(1,1,[11])); p.dataReceived(reply(1,1,[111])); p.dataReceived(reply(77,1,[0]))
print(res)
p.connectionLost(None); print(res)
d=p.read_holding_registers(9,1,unit=1); d.addErrback(lambda f: print("after loss:", f.type.__name__))
# different units in one segment
p=ModbusClientProtocol(); t=proto_helpers.StringTransport(); p.makeConnection(t); res={}
for i,u in enumerate((1,2)):
    d=p.read_holding_registers(i,1,unit=u)
    d.addCallbacks(lambda r,i=i: res.setdefault(i,[]).append(('ok',r.transaction_id,r.registers)), lambda f,i=i: res.setdefault(i,[]).append(('err',f.type.__name__)))
p.dataReceived(reply(1,1,[11])+reply(2,2,[22])); print("two units one segment:", res, list(p.transaction))
# split reply
p=ModbusClientProtocol(); t=proto_helpers.StringTransport(); p.makeConnection(t); res={}
d=p.read_holding_registers(0,1,unit=1); d.addCallback(lambda r: res.setdefault(0,[]).append(r.registers))
pk=reply(1,1,[11])
try:
    p.dataReceived(pk[:9]); p.dataReceived(pk[9:])
except Exception as e: print("split raised", repr(e))
print("split:", res)
# tid wrap
p=ModbusClientProtocol(); t=proto_helpers.StringTransport(); p.makeConnection(t)
first=p.read_holding_registers(0,1,unit=1); fired=[]
first.addCallback(lambda r: fired.append(('first',r.registers)))
for i in range(65535):
    d=p.read_holding_registers(0,1,unit=1); tid=p.transaction.tid
    p.dataReceived(reply(tid,1,[i&0xffff]))
t.clear()
d=p.read_holding_registers(0,1,unit=1); d.addCallback(lambda r: fired.append(('wrapped',r.registers))); print("tid now", p.transaction.tid, "pending", len(list(p.transaction)))
p.dataReceived(reply(1,1,[4242])); print(fired)
