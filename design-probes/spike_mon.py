import sys, logging; logging.disable(logging.CRITICAL)
sys.path.insert(0,'/tmp/scratch/deps')
import icontract, copy, dis, time
# --- sys.monitoring anchor coverage with DISABLE
TOOL=sys.monitoring.COVERAGE_ID
sys.monitoring.use_tool_id(TOOL,"vmon")
hits=set()
def on_line(code, line):
    if 'pymodbus' in code.co_filename: hits.add((code.co_filename.split('pymodbus/')[-1], code.co_qualname, line))
    return sys.monitoring.DISABLE
sys.monitoring.register_callback(TOOL, sys.monitoring.events.LINE, on_line)
sys.monitoring.set_events(TOOL, sys.monitoring.events.LINE)
from pymodbus.framer.ascii_framer import ModbusAsciiFramer
from pymodbus.factory import ServerDecoder
from pymodbus.register_read_message import ReadHoldingRegistersRequest, ReadWriteMultipleRegistersResponse
from pymodbus.mei_message import ReadDeviceInformationResponse
f=ModbusAsciiFramer(ServerDecoder()); pk=f.buildPacket(ReadHoldingRegistersRequest(1,2,unit=1)); out=[]
t=time.time()
for i in range(20000): f.processIncomingPacket(pk,out.append,[1],single=True)
print("20000 calls with monitoring on:", round(time.time()-t,3),"s; deliveries",len(out))
fn=ModbusAsciiFramer.processIncomingPacket
lines={l for _,_,l in fn.__code__.co_lines() if l}
got={l for (file,q,l) in hits if q=='ModbusAsciiFramer.processIncomingPacket'}
print("anchor lines hit %d/%d"%(len(got&lines),len(lines)), sorted(lines-got))
sys.monitoring.set_events(TOOL,0)
# --- icontract purity contract applied from outside
class PurityBroken(Exception): pass
evals={'n':0}
def state_of(self): return copy.deepcopy(vars(self))
def unchanged(self, OLD):
    evals['n']+=1
    return vars(self)==OLD.state
def purify(cls):
    cls.encode = icontract.snapshot(state_of, name="state")(icontract.ensure(unchanged, error=PurityBroken)(cls.encode))
purify(ReadWriteMultipleRegistersResponse); purify(ReadDeviceInformationResponse)
ReadWriteMultipleRegistersResponse([1,2]).encode()
try:
    ReadDeviceInformationResponse(1,{0:b'a'}).encode(); print("no fire?!")
except PurityBroken as e: print("contract fired on RDI encode:", str(e).splitlines()[0][:80])
print("evaluations", evals)
