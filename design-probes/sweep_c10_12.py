import logging; logging.disable(logging.CRITICAL)
import asyncio, random, warnings, struct, collections, copy
warnings.simplefilter("ignore")
from pymodbus.datastore import *
from pymodbus.factory import ServerDecoder, ClientDecoder
from pymodbus.transaction import *
from pymodbus.register_read_message import *
from pymodbus.register_write_message import *
from pymodbus.bit_write_message import *
from pymodbus.device import ModbusControlBlock
import pymodbus.server.sync as sy, pymodbus.server.async_io as aio, pymodbus.server.asynchronous as tw
from twisted.test import proto_helpers
R=random.Random(9)
def sl(): return ModbusSlaveContext(di=ModbusSequentialDataBlock(0,[False]*16), co=ModbusSequentialDataBlock(0,[False]*16), hr=ModbusSequentialDataBlock(0,[0]*16), ir=ModbusSequentialDataBlock(0,[0]*16), zero_mode=True)
def mkctx(units, single): return ModbusServerContext(slaves=sl(), single=True) if single else ModbusServerContext(slaves={u:sl() for u in units}, single=False)
def dump(ctx): return {u:{k:list(b.values) for k,b in s.store.items()} for u,s in ctx}
class Srv: pass
class FakeSock:
    def __init__(self, chunks): self.chunks=list(chunks); self.out=[]; self.h=None
    def recv(self,n):
        if self.chunks: return self.chunks.pop(0)
        if self.h is not None: self.h.running=False
        return b''
    def send(self,b): self.out.append(bytes(b)); return len(b)
def run_sync(F, ctx, chunks, serial=False, **fl):
    s=Srv(); s.framer=F; s.decoder=ServerDecoder(); s.context=ctx; s.threads=[]; s.broadcast_enable=fl.get('bc',False); s.ignore_missing_slaves=fl.get('ign',False)
    fs=FakeSock(chunks)
    if serial:
        h=sy.CustomSingleRequestHandler(fs,("x","x"),s); fs.h=h; h.handle()
    else: h=sy.ModbusConnectedRequestHandler(fs,("x",1),s)
    return fs.out
# ---- C10: unit routing
res=collections.Counter(); ex={}
for it in range(3000):
    H=R.choice([[1,2],[0,1],[5],[1,255],[247],[1,2,3]]); single=R.random()<.2; bc=R.random()<.5; ign=R.random()<.5
    F,serial=R.choice([(ModbusSocketFramer,False),(ModbusAsciiFramer,True),(ModbusRtuFramer,True)])
    ctx=mkctx(H,single); before=dump(ctx)
    u=R.choice([0,1,2,5,9,247,248,255]); a=R.randrange(16); v=R.randrange(1,65536)
    pkt=F(ServerDecoder()).buildPacket(WriteSingleRegisterRequest(a,v,unit=u,transaction=3))
    out=run_sync(F,ctx,[pkt],serial,bc=bc,ign=ign); after=dump(ctx)
    changed=[x for x in after if after[x]!=before[x]]
    hosted=[0] if single else H
    if single: exp_changed=[0]; exp_resp=not(bc and u==0)
    elif bc and u==0: exp_changed=sorted(H); exp_resp=False
    elif u in H: exp_changed=[u]; exp_resp=True
    else: exp_changed=[]; exp_resp=None
    key=None
    if sorted(changed)!=exp_changed: key='store'
    elif exp_resp is True and len(out)!=1: key='noresp'
    elif exp_resp is False and out: key='resp-to-broadcast'
    if key:
        res[(F.__name__,key)]+=1; ex.setdefault((F.__name__,key),(H,single,bc,ign,u,changed,[o.hex() for o in out]))
print("C10", dict(res)); [print(' ',k,v) for k,v in ex.items()]
# ---- C12 hostile: mutated valid traffic through sync TCP & ASCII serial & asyncio & twisted
def mut(b):
    b=bytearray(b)
    for _ in range(R.randrange(1,4)):
        k=R.randrange(4)
        if k==0 and b: b[R.randrange(len(b))]=R.randrange(256)
        elif k==1 and b: del b[R.randrange(len(b))]
        elif k==2: b.insert(R.randrange(len(b)+1),R.randrange(256))
        elif k==3 and len(b)>2: b=b[:R.randrange(1,len(b))]
    return bytes(b)
esc=collections.Counter(); storebad=collections.Counter()
for it in range(4000):
    F,serial=R.choice([(ModbusSocketFramer,False),(ModbusAsciiFramer,True),(ModbusRtuFramer,True),(ModbusBinaryFramer,True),(ModbusRtuFramer,False)])
    ctx=mkctx([1],True); before=dump(ctx)
    f=F(ServerDecoder())
    ms=[R.choice([WriteSingleRegisterRequest(R.randrange(16),0xBEEF,unit=1,transaction=R.randrange(65536)), WriteMultipleRegistersRequest(R.randrange(10),[0xBEEF]*R.randrange(1,5),unit=1), ReadHoldingRegistersRequest(0,5,unit=1), WriteMultipleCoilsRequest(2,[True]*R.randrange(1,9),unit=1)]) for _ in range(R.randrange(1,4))]
    blob=b''.join(mut(f.buildPacket(m)) for m in ms)
    chunks=[blob[i:i+R.randrange(1,40)] for i in range(0,len(blob),40)]
    try: out=run_sync(F,ctx,chunks,serial)
    except Exception as e: esc[(F.__name__,serial,type(e).__name__)]+=1; continue
    ModbusControlBlock().ListenOnly=False
print("C12 escapes from sync handlers:", dict(esc))
# twisted tcp + asyncio: count exceptions escaping dataReceived
tesc=collections.Counter()
for it in range(2000):
    fac=tw.ModbusServerFactory(mkctx([1],True), framer=ModbusSocketFramer); p=fac.buildProtocol(None); tr=proto_helpers.StringTransport(); p.makeConnection(tr)
    f=ModbusSocketFramer(ServerDecoder()); blob=mut(f.buildPacket(WriteSingleRegisterRequest(1,2,unit=1)))
    try: p.dataReceived(blob)
    except Exception as e: tesc[type(e).__name__]+=1
    ModbusControlBlock().ListenOnly=False
print("twisted tcp dataReceived escapes:", dict(tesc))
