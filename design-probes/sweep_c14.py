import logging; logging.disable(logging.CRITICAL)
import collections
from pymodbus.datastore import *
from pymodbus.bit_read_message import *; from pymodbus.bit_write_message import *
from pymodbus.register_read_message import *; from pymodbus.register_write_message import *
from pymodbus.diag_message import *
import pymodbus.diag_message as dm
from pymodbus.transaction import *
from pymodbus.factory import ClientDecoder
from pymodbus.pdu import ExceptionResponse
ctx=ModbusSlaveContext(zero_mode=True)
bad=collections.Counter(); n=0; ex={}
def chk(req, tag):
    global n
    n+=1
    pred=req.get_response_pdu_size()
    resp=req.execute(ctx)
    real=1+len(resp.encode())
    if isinstance(resp,ExceptionResponse): return
    if pred!=real: bad[tag]+=1; ex.setdefault(tag,(pred,real))
for q in range(1,2001): chk(ReadCoilsRequest(0,q),'fc1'); chk(ReadDiscreteInputsRequest(0,q),'fc2')
for q in range(1,126): chk(ReadHoldingRegistersRequest(0,q),'fc3'); chk(ReadInputRegistersRequest(0,q),'fc4')
for q in range(1,1969): chk(WriteMultipleCoilsRequest(0,[True]*q),'fc15')
for q in range(1,124): chk(WriteMultipleRegistersRequest(0,[1]*q),'fc16')
for rq in range(1,126):
    for wq in (1,60,121): chk(ReadWriteMultipleRegistersRequest(read_address=0,read_count=rq,write_address=0,write_registers=[1]*wq),'fc23')
chk(WriteSingleCoilRequest(0,True),'fc5'); chk(WriteSingleRegisterRequest(0,5),'fc6')
for name in dm.__all__:
    cls=getattr(dm,name)
    if name.endswith('Request') and name not in('DiagnosticStatusRequest',):
        try:
            if name=='GetClearModbusPlusRequest':
                for d in (3,4): chk(cls(data=d),name+str(d))
            elif name=='ReturnQueryDataRequest':
                for msg in ([0],[1,2],[1,2,3]): chk(cls(msg),name+str(len(msg)))
            else: chk(cls(),name)
        except Exception as e: bad[name+' EXC '+type(e).__name__]+=1
print(n, dict(bad)); print(ex)
# framing overheads
class C: pass
for F,exp_norm,exp_exc in ((ModbusRtuFramer,3,5),(ModbusAsciiFramer,7,11),(ModbusBinaryFramer,5,7),(ModbusSocketFramer,7,9),(ModbusTlsFramer,0,2)):
    c=C(); c.framer=F(ClientDecoder()); tm=DictTransactionManager(c)
    r=ReadHoldingRegistersResponse([1,2,3]); r.unit_id=1; r.transaction_id=1
    pkt=F(ClientDecoder()).buildPacket(r); pdu=1+len(r.encode())
    pred=tm._calculate_response_length(pdu*2 if F is ModbusAsciiFramer else pdu)
    e=ExceptionResponse(3,2); e.unit_id=1; e.transaction_id=1; epkt=F(ClientDecoder()).buildPacket(e)
    print(F.__name__, 'normal pred',pred,'real',len(pkt),'| exc pred',tm._calculate_exception_length(),'real',len(epkt))
