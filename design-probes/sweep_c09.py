import logging; logging.disable(logging.CRITICAL)
import asyncio, random, warnings, struct
warnings.simplefilter("ignore")
from pymodbus.datastore import *
from pymodbus.factory import ServerDecoder, ClientDecoder
from pymodbus.transaction import *
from pymodbus.register_read_message import *
from pymodbus.register_write_message import *
from pymodbus.bit_write_message import *
from pymodbus.bit_read_message import *
from pymodbus.diag_message import *
import pymodbus.server.sync as sy
R=random.Random(3)
def mkctx(units, single):
    sl=lambda: ModbusSlaveContext(di=ModbusSequentialDataBlock(0,[False]*32), co=ModbusSequentialDataBlock(0,[False]*32), hr=ModbusSequentialDataBlock(0,[0]*32), ir=ModbusSequentialDataBlock(0,[0]*32), zero_mode=True)
    return ModbusServerContext(slaves=sl(), single=True) if single else ModbusServerContext(slaves={u:sl() for u in units}, single=False)
class FakeSock:
    def __init__(self, chunks): self.chunks=list(chunks); self.out=[]; self.h=None
    def recv(self,n):
        if self.chunks: return self.chunks.pop(0)
        if self.h is not None: self.h.running=False
        return b''
    def send(self,b): self.out.append(bytes(b)); return len(b)
class Srv: pass
def run(F, handler_cls, ctx, chunks, **flags):
    s=Srv(); s.framer=F; s.decoder=ServerDecoder(); s.context=ctx; s.threads=[]; s.broadcast_enable=flags.get('bc',False); s.ignore_missing_slaves=flags.get('ign',False)
    fs=FakeSock(chunks)
    if handler_cls is sy.ModbusSingleRequestHandler:
        h=sy.CustomSingleRequestHandler(fs,("x","x"),s); fs.h=h; h.handle()
    else:
        h=handler_cls(fs,("x",1),s)
    return b''.join(fs.out)
def parse(F, data, units=None):
    f=F(ClientDecoder()); out=[]
    try: f.processIncomingPacket(data, out.append, [0], single=True)
    except Exception as e: out.append('PARSE-EXC '+type(e).__name__)
    return out
def req():
    u=R.choice([1,1,1,2,9]); t=R.randrange(1,65536)
    k=R.randrange(4)
    if k==0: return ReadHoldingRegistersRequest(R.randrange(40),R.randrange(0,6),unit=u,transaction=t)
    if k==1: return WriteSingleRegisterRequest(R.randrange(40),R.randrange(65536),unit=u,transaction=t)
    if k==2: return WriteMultipleCoilsRequest(R.randrange(40),[True]*R.randrange(1,5),unit=u,transaction=t)
    return ReadCoilsRequest(R.randrange(40),R.randrange(0,20),unit=u,transaction=t)
stats={}
for F,H in ((ModbusSocketFramer,sy.ModbusConnectedRequestHandler),(ModbusAsciiFramer,sy.ModbusSingleRequestHandler),(ModbusRtuFramer,sy.ModbusSingleRequestHandler),(ModbusBinaryFramer,sy.ModbusSingleRequestHandler),(ModbusRtuFramer,sy.ModbusConnectedRequestHandler)):
  for single in (True,False):
    for grouping in (1,2,3):
      bad=0; n=0; ex=None
      for _ in range(300):
        ms=[req() for _ in range(R.randrange(1,7))]
        b=F(ServerDecoder()); pk=[b.buildPacket(m) for m in ms]
        if F is ModbusBinaryFramer and any(0x7b in p[1:-1] or 0x7d in p[1:-1] for p in pk): continue
        chunks=[b''.join(pk[i:i+grouping]) for i in range(0,len(pk),grouping)]
        out=run(F,H,mkctx([1,2],single),chunks)
        resp=parse(F,out) if F is not ModbusRtuFramer else None
        exp=[m for m in ms if single or m.unit_id in (1,2)]
        if F is ModbusRtuFramer:
            # count frames by walking
            f=F(ClientDecoder()); got=[]; buf=out
            while buf:
                before=len(got)
                try: f.processIncomingPacket(buf[:0] if False else buf, got.append, [0], single=True)
                except Exception as e: got.append('EXC'); break
                if len(got)==before: break
                buf=f._buffer; f._buffer=b''; f._header={}
            resp=got
        n+=1
        ok = len(resp)==len(exp) and all((not isinstance(r,str)) and r.unit_id==m.unit_id and (F is not ModbusSocketFramer or r.transaction_id==m.transaction_id) and (r.function_code&0x7f)==m.function_code for r,m in zip(resp,exp))
        if not ok:
            bad+=1
            if ex is None: ex=([ (type(m).__name__,m.unit_id) for m in ms], [ (type(r).__name__, getattr(r,'unit_id',None)) if not isinstance(r,str) else r for r in resp])
      print(F.__name__, H.__name__, 'single' if single else 'multi', 'group',grouping, 'bad %d/%d'%(bad,n), ex if bad else '')
