import logging; logging.disable(logging.CRITICAL)
import random, collections, binascii
from pymodbus.factory import ServerDecoder
from pymodbus.transaction import *
from pymodbus.register_write_message import *
R=random.Random(8)
def frame(F,i,unit=1): return F(ServerDecoder()).buildPacket(WriteSingleRegisterRequest(i,0x1111+i,unit=unit))
def lrc_ok(span):
    try: b=binascii.a2b_hex(span)
    except Exception: return None
    return (sum(b)&0xff)==0
stats=collections.defaultdict(collections.Counter); ex={}
for F in (ModbusRtuFramer,ModbusAsciiFramer,ModbusBinaryFramer):
    MAXF={ModbusRtuFramer:256,ModbusAsciiFramer:515,ModbusBinaryFramer:260}[F]
    for it in range(3000):
        kind=R.choice(['random','flip','trunc','foreign','delims','bigcount'])
        g0=frame(F,999)
        if kind=='random': g=bytes(R.randrange(256) for _ in range(R.randrange(1,40)))
        elif kind=='flip':
            b=bytearray(g0); b[R.randrange(len(b))]^=1<<R.randrange(8); g=bytes(b)
        elif kind=='trunc': g=g0[:R.randrange(1,len(g0))]
        elif kind=='foreign': g=frame(F,5,unit=9)
        elif kind=='delims': g=bytes(R.choice(b':{}\r\n') for _ in range(R.randrange(1,8)))
        else: g=bytes([1,16,0,0,0,1,255])
        if F is ModbusBinaryFramer and kind!='delims' and kind!='random' and (0x7b in g[1:-1] or 0x7d in g[1:-1]): continue
        N=80; valid=[frame(F,i) for i in range(N)]
        if F is ModbusBinaryFramer: valid=[v for v in valid if not(0x7b in v[1:-1] or 0x7d in v[1:-1])]
        f=F(ServerDecoder()); got=[]; exc=collections.Counter(); maxbuf=0
        try: f.processIncomingPacket(g,lambda m: got.append(('G',m.address)),[1],single=False)
        except Exception as e: exc[type(e).__name__]+=1
        sent=0; first_ok=None
        for i,v in enumerate(valid):
            try: f.processIncomingPacket(v,lambda m: got.append(m.address),[1],single=False)
            except Exception as e: exc[type(e).__name__]+=1
            sent+=len(v); maxbuf=max(maxbuf,len(f._buffer))
        # bound: frames fully after 2*MAXF bytes must all be delivered
        need=[]; o=0
        for i,v in enumerate(valid):
            if o>=2*MAXF: need.append(int.from_bytes(v[3:5],'big') if F is ModbusBinaryFramer else (int.from_bytes(v[2:4],'big') if F is ModbusRtuFramer else int(v[5:9],16)))
            o+=len(v)
        delivered=[a for a in got if not isinstance(a,tuple)]
        missing=[a for a in need if a not in delivered]
        tag='clean'
        if F is ModbusAsciiFramer:
            # predicate: garbage holds ':'...CRLF span with bad lrc or nonhex
            s=g; 
            if b':' in g:
                tail=g[g.index(b':')+1:]
                if b'\r\n' in tail:
                    span=tail[:tail.index(b'\r\n')]; r=lrc_ok(span)
                    tag='badlrc' if r is False else ('nonhex' if r is None else 'clean')
                else: tag='open-colon'   # ':' without CRLF: next frame's CRLF will close it
        key=(kind,tag,'ok' if not missing and maxbuf<=2*MAXF+600 else 'FAIL')
        stats[F.__name__][key]+=1
        if key[2]=='FAIL': ex.setdefault((F.__name__,kind,tag),(g.hex()[:40],len(missing),maxbuf,dict(exc)))
for k,v in stats.items():
    print(k); [print('   ',kk,vv) for kk,vv in sorted(v.items())]
for k,v in ex.items(): print(k,v)
