import logging; logging.disable(logging.CRITICAL)
import random, copy, inspect, struct
from pymodbus.factory import ServerDecoder, ClientDecoder
from pymodbus.pdu import ModbusRequest, ModbusResponse, ExceptionResponse
import pymodbus.bit_read_message as brm, pymodbus.bit_write_message as bwm, pymodbus.register_read_message as rrm, pymodbus.register_write_message as rwm
import pymodbus.file_message as fm, pymodbus.other_message as om, pymodbus.diag_message as dm, pymodbus.mei_message as mm
sd, cd = ServerDecoder(), ClientDecoder()
def tables(dec):
    pre='_'+type(dec).__name__
    return getattr(dec,pre+'__lookup'), getattr(dec,pre+'__sub_lookup')
R=random.Random(1)
def u16(): return R.choice([0,1,255,256,0x7fff,0xffff,R.randrange(65536)])
def mk(cls):
    n=cls.__name__
    if n in('ReadCoilsRequest','ReadDiscreteInputsRequest'): return cls(u16(), R.randrange(1,2001))
    if n in('ReadHoldingRegistersRequest','ReadInputRegistersRequest'): return cls(u16(), R.randrange(1,126))
    if n in('ReadCoilsResponse','ReadDiscreteInputsResponse'): return cls([R.random()<.5 for _ in range(R.randrange(1,2001))])
    if n in('ReadHoldingRegistersResponse','ReadInputRegistersResponse','ReadWriteMultipleRegistersResponse'): return cls([u16() for _ in range(R.randrange(1,126))])
    if n in('WriteSingleCoilRequest','WriteSingleCoilResponse'): return cls(u16(), R.random()<.5)
    if n in('WriteSingleRegisterRequest','WriteSingleRegisterResponse'): return cls(u16(), u16())
    if n=='WriteMultipleCoilsRequest': return cls(u16(), [R.random()<.5 for _ in range(R.randrange(1,1969))])
    if n=='WriteMultipleRegistersRequest': return cls(u16(), [u16() for _ in range(R.randrange(1,124))])
    if n in('WriteMultipleCoilsResponse','WriteMultipleRegistersResponse'): return cls(u16(), R.randrange(1,124))
    if n in('MaskWriteRegisterRequest','MaskWriteRegisterResponse'): return cls(u16(),u16(),u16())
    if n=='ReadWriteMultipleRegistersRequest': return cls(read_address=u16(),read_count=R.randrange(1,126),write_address=u16(),write_registers=[u16() for _ in range(R.randrange(1,122))])
    if n=='ReadFifoQueueRequest': return cls(u16())
    if n=='ReadFifoQueueResponse': return cls([u16() for _ in range(R.randrange(0,32))])
    if n=='ReadFileRecordRequest': return cls([fm.FileRecord(file_number=u16(),record_number=R.randrange(10000),record_length=R.randrange(1,50)) for _ in range(R.randrange(1,6))])
    if n=='ReadFileRecordResponse': return cls([fm.FileRecord(record_data=bytes(R.randrange(256) for _ in range(2*R.randrange(1,20)))) for _ in range(R.randrange(1,5))])
    if n in('WriteFileRecordRequest','WriteFileRecordResponse'): return cls([fm.FileRecord(file_number=u16(),record_number=R.randrange(10000),record_data=bytes(R.randrange(256) for _ in range(2*R.randrange(1,20)))) for _ in range(R.randrange(1,4))])
    if n=='ReadExceptionStatusResponse': return cls(R.randrange(256))
    if n=='GetCommEventCounterResponse':
        m=cls(u16()); m.status=R.random()<.5; return m
    if n=='GetCommEventLogResponse': return cls(status=R.random()<.5,message_count=u16(),event_count=u16(),events=[R.randrange(256) for _ in range(R.randrange(0,65))])
    if n=='ReportSlaveIdResponse': return cls(bytes(R.randrange(256) for _ in range(R.randrange(0,40))), R.random()<.5)
    if n=='ReadDeviceInformationRequest': return cls(R.randrange(1,5), R.randrange(256))
    if n=='ReadDeviceInformationResponse': return cls(R.randrange(1,5), {i:bytes(R.randrange(32,127) for _ in range(R.randrange(1,30))) for i in sorted(R.sample(range(7),R.randrange(1,5)))})
    if issubclass(cls,(dm.DiagnosticStatusSimpleRequest,dm.DiagnosticStatusSimpleResponse)):
        if cls is dm.GetClearModbusPlusRequest: return cls(data=R.choice([3,4]))
        return cls(u16())
    if n in('ReturnQueryDataRequest','ReturnQueryDataResponse'): return cls([u16()])
    if n in('RestartCommunicationsOptionRequest','RestartCommunicationsOptionResponse'): return cls(R.random()<.5)
    return cls()
def fields(m): return {k:v for k,v in vars(m).items() if k not in('transaction_id','protocol_id','unit_id','skip_encode','check')}
def norm(v):
    if isinstance(v,(list,tuple)): return [norm(x) for x in v]
    if isinstance(v,fm.FileRecord): return ('FR',v.file_number,v.record_number,v.record_length,bytes(v.record_data) if v.record_data else b'')
    return v
issues={}
def note(cls,what): issues.setdefault(cls.__name__,set()).add(what)
for dec,base in((sd,ModbusRequest),(cd,ModbusResponse)):
    lk,sub=tables(dec)
    classes=set(lk.values())|{c for d in sub.values() for c in d.values()}
    for cls in sorted(classes,key=lambda c:c.__name__):
        for _ in range(60):
            try: m=mk(cls)
            except Exception as e: note(cls,'ctor '+repr(e)); break
            try:
                s0=copy.deepcopy(fields(m)); e1=m.encode()
                if norm(fields(m))!=norm(s0): note(cls,'encode mutates '+str([k for k in s0 if norm(s0[k])!=norm(fields(m).get(k))]+[k for k in fields(m) if k not in s0]))
                e2=m.encode()
                if e1!=e2: note(cls,'encode not idempotent')
                pdu=bytes([m.function_code])+e1
                if len(pdu)>253: continue
                try: d=dec.decode(pdu)
                except Exception as e: note(cls,'decode raises '+type(e).__name__); continue
                if d is None: note(cls,'decode None'); continue
                if type(d) is not cls: note(cls,'type '+type(d).__name__)
                e3=d.encode()
                if e3!=e1: note(cls,'reencode differs')
                d.decode(e1); e4=d.encode()
                if e4!=e3: note(cls,'decode accumulates')
            except Exception as e: note(cls,'EXC '+repr(e)[:80])
for k,v in sorted(issues.items()): print(k, sorted(v))
print("classes with issues:", len(issues))
