import logging; logging.disable(logging.CRITICAL)
import struct
from pymodbus.factory import ServerDecoder, ClientDecoder
from pymodbus.datastore import *
from pymodbus.register_write_message import *
from pymodbus.register_read_message import *
from pymodbus.bit_write_message import *
from pymodbus.bit_read_message import *
from pymodbus.pdu import *
def ctx(zero=True):
    return ModbusSlaveContext(di=ModbusSequentialDataBlock(0,[False]*20), co=ModbusSequentialDataBlock(0,[False]*20),
        hr=ModbusSequentialDataBlock(0,[0]*20), ir=ModbusSequentialDataBlock(0,[0]*20), zero_mode=zero)
c=ctx()
c.setValues(3,5,[0x1234])
r=MaskWriteRegisterRequest(5,0x00F2,0x0025).execute(c); print("mask write", hex(c.getValues(3,5,1)[0]), "spec", hex((0x1234&0xF2)|(0x25&~0xF2&0xffff)))
sd=ServerDecoder()
# write single coil illegal value
q=sd.decode(bytes([5])+struct.pack('>HH',3,0x1234)); r=q.execute(c); print("wsc bad value ->", type(r).__name__, getattr(r,'exception_code',None), c.getValues(1,3,1))
q=sd.decode(bytes([5])+struct.pack('>HH',3,0xFF00)); r=q.execute(c); print(type(r).__name__, r.encode().hex())
# write multiple coils qty/bytecount mismatch
q=sd.decode(bytes([15])+struct.pack('>HHB',0,20,1)+b'\xff'); r=q.execute(c); print("wmc mismatch ->", type(r).__name__, getattr(r,'exception_code',None), c.getValues(1,0,10))
# wmc declared qty 3 with byte holding 0xff
q=sd.decode(bytes([15])+struct.pack('>HHB',10,3,1)+b'\xff'); r=q.execute(c); print("wmc 3 ->", type(r).__name__, c.getValues(1,8,8))
# wmr qty mismatch bytes
q=sd.decode(bytes([16])+struct.pack('>HHB',0,2,2)+b'\x00\x01\x00\x02'); r=q.execute(c); print("wmr bc mismatch ->", type(r).__name__, getattr(r,'exception_code',None))
try:
    q=sd.decode(bytes([16])+struct.pack('>HHB',0,2,4)+b'\x00\x01'); print("wmr short data decoded", q.values)
except Exception as e: print("wmr short data raises", repr(e))
# rwm: read range invalid, write valid
c2=ctx(); q=ReadWriteMultipleRegistersRequest(read_address=100,read_count=2,write_address=1,write_registers=[9,9]); r=q.execute(c2); print("rwm bad read ->", type(r).__name__, r.exception_code, c2.getValues(3,0,4))
# rwm order
c2=ctx(); q=ReadWriteMultipleRegistersRequest(read_address=1,read_count=2,write_address=1,write_registers=[9,8]); r=q.execute(c2); print("rwm order", r.registers)
# rwm with byte count > data
q=None
print("rwm short", q.write_registers if q else None)
# read count boundaries
for cnt in (0,1,125,126): print("rhr",cnt,type(ReadHoldingRegistersRequest(0,cnt).execute(ModbusSlaveContext(zero_mode=True))).__name__)
for cnt in (0,1,2000,2001): print("rc",cnt,type(ReadCoilsRequest(0,cnt).execute(ModbusSlaveContext(zero_mode=True))).__name__)
# non zero mode addressing: block at 0 size 20, address 19
c3=ctx(zero=False); print("nonzero validate(3,19,1)",c3.validate(3,19,1), "validate(3,18,1)", c3.validate(3,18,1))
# count 0 validate sequential
b=ModbusSequentialDataBlock(5,[0]*4); print("seq validate", [(a,n,b.validate(a,n)) for a,n in [(4,1),(5,4),(5,5),(8,1),(9,1),(5,0),(9,0),(10,0)]])
s=ModbusSparseDataBlock({5:1,6:2,9:3}); print("sparse", s.validate(5,2), s.validate(5,3), s.validate(9,1), s.validate(5,0), s.address, s.default_value)
s.setValues(5,[7,8]); print(s.values)
