import os, serial, threading, time, logging; logging.disable(logging.CRITICAL)
m,s=os.openpty(); name=os.ttyname(s); print(name)
import tty; tty.setraw(s); tty.setraw(m)
from pymodbus.client.sync import ModbusSerialClient
from pymodbus.factory import ServerDecoder
from pymodbus.transaction import ModbusRtuFramer
from pymodbus.datastore import ModbusSlaveContext
ctx=ModbusSlaveContext(zero_mode=True)
def peer():
    f=ModbusRtuFramer(ServerDecoder())
    while True:
        try: d=os.read(m,256)
        except OSError: return
        def ex(req):
            r=req.execute(ctx); r.unit_id=req.unit_id; os.write(m, f.buildPacket(r))
        f.processIncomingPacket(d, ex, [0], single=True)
threading.Thread(target=peer,daemon=True).start()
c=ModbusSerialClient(method='rtu', port=name, timeout=0.3, baudrate=115200)
t=time.time(); r=c.read_holding_registers(0,4,unit=3); print(type(r).__name__, getattr(r,'registers',None), round(time.time()-t,3))
r=c.write_register(2,77,unit=3); r=c.read_holding_registers(0,4,unit=3); print(r.registers)
c.close()
