import logging; logging.disable(logging.CRITICAL)
import types, random, socket, collections, itertools, traceback
import serial as pyserial
import pymodbus.client.sync as cs, pymodbus.transaction as tx, pymodbus.framer.rtu_framer as rf
from pymodbus.factory import ClientDecoder, ServerDecoder
from pymodbus.transaction import *
from pymodbus.register_read_message import *
from pymodbus.datastore import *
R=random.Random(5)
class VClock:
    def __init__(self): self.now=1000.0
    def time(self): return self.now
    def sleep(self,d): self.now+=max(d,0)
clk=VClock(); ft=types.SimpleNamespace(time=clk.time, sleep=clk.sleep); cs.time=ft; tx.time=ft; rf.time=ft
FR={'rtu':ModbusRtuFramer,'ascii':ModbusAsciiFramer,'binary':ModbusBinaryFramer,'tcp':ModbusSocketFramer}
ctx=ModbusSlaveContext(zero_mode=True)
def good_reply(F, reqbytes):
    f=F(ServerDecoder()); out=[]
    def ex(req):
        resp=req.execute(ctx); resp.unit_id=req.unit_id; resp.transaction_id=req.transaction_id; out.append(f.buildPacket(resp))
    f.processIncomingPacket(reqbytes, ex, [0], single=True); return b''.join(out)
class Peer:
    """shared across reconnects: counts transmissions, applies script per transmission"""
    def __init__(self,F,script): self.F=F; self.script=script; self.tx=0; self.ops=0
    def on_write(self,b):
        self.tx+=1; kind=self.script[min(self.tx-1,len(self.script)-1)]; g=good_reply(self.F,bytes(b))
        if kind=='good': return g
        if kind=='none': return b''
        if kind=='short': return g[:R.randrange(1,len(g))]
        if kind=='garbage': return bytes(R.randrange(256) for _ in range(R.randrange(1,20)))
        if kind=='flip':
            ba=bytearray(g); ba[R.randrange(len(ba))]^=1<<R.randrange(8); return bytes(ba)
        if kind=='oserr': raise OSError("boom")
class FakeSerial:
    def __init__(self, peer, timeout=1): self.p=peer; self.rx=b''; self.is_open=True; self.timeout=timeout
    @property
    def in_waiting(self): return len(self.rx)
    def write(self,b): self.rx+=self.p.on_write(b); return len(b)
    def read(self,n=1):
        self.p.ops+=1
        if self.p.ops>500: raise RuntimeError("UNBOUNDED")
        if n is None or n<=0: return b''
        if len(self.rx)<n: clk.now+=self.timeout
        d,self.rx=self.rx[:n],self.rx[n:]; return d
    def close(self): self.is_open=False
class FakeSocket:
    def __init__(self,peer): self.p=peer; self.rx=b''
    def setblocking(self,b): pass
    def settimeout(self,t): pass
    def send(self,b): self.rx+=self.p.on_write(b); return len(b)
    def recv(self,n):
        self.p.ops+=1
        if self.p.ops>500: raise RuntimeError("UNBOUNDED")
        d,self.rx=self.rx[:n],self.rx[n:]; return d
    def close(self): pass
class FSel:
    @staticmethod
    def select(r,w,x,t=None):
        s=r[0]
        if s.rx: return (r,[],[])
        clk.now+=(t or 0)+1e-6; return ([],[],[])
cs.select=FSel
esc=collections.Counter(); outcomes=collections.Counter(); over=collections.Counter(); sites={}
kinds=['good','none','short','garbage','flip','oserr']
for method in FR:
  for retries in (0,1,2):
    for roe in (False,True):
      for roi in (False,True):
        for script in itertools.product(kinds, repeat=retries+1):
          for rep in range(2):
            peer=Peer(FR[method], list(script)+['good'])
            if method=='tcp':
                cs.socket=types.SimpleNamespace(create_connection=lambda *a,**k: FakeSocket(peer), error=socket.error)
                c=cs.ModbusTcpClient(timeout=1, retries=retries, retry_on_empty=roe, retry_on_invalid=roi, backoff=0.01)
            else:
                pyserial.Serial=lambda **k: FakeSerial(peer)
                c=cs.ModbusSerialClient(method=method, port='/dev/fake', timeout=1, baudrate=19200, retries=retries, retry_on_empty=roe, retry_on_invalid=roi, backoff=0.01)
            try:
                r=c.read_holding_registers(1,3,unit=7)
                outcomes[(method, 'err' if r.isError() else 'ok')]+=1
            except Exception as e:
                tb=traceback.extract_tb(e.__traceback__)[-1]
                esc[(method,type(e).__name__)]+=1; sites.setdefault((method,type(e).__name__,tb.filename.split('/')[-1],tb.lineno),script)
            if peer.tx>retries+1: over[(method,retries,roe,roi)]+=1; sites.setdefault(('OVER',method,retries,roe,roi),(script,peer.tx))
            # follow-up healthy
            peer.script=['good']*5; peer.tx=0
            try:
                r=c.read_holding_registers(2,2,unit=7)
                if r.isError(): outcomes[(method,'followup-err')]+=1; sites.setdefault(('FOLLOWUP',method),(script,str(r)[:80]))
            except Exception as e:
                outcomes[(method,'followup-raise '+type(e).__name__)]+=1; sites.setdefault(('FOLLOWUPRAISE',method,type(e).__name__),script)
print("escaped:", dict(esc)); print("outcomes:", dict(outcomes)); print("over-transmit:", dict(over))
for k,v in sites.items(): print(k,v)
