import logging; logging.disable(logging.CRITICAL)
import random, collections
exec(open('sweep_c06.py').read().split("stats=collections.defaultdict")[0].replace("R=random.Random(4)","R=random.Random(12)"))
res=collections.defaultdict(collections.Counter); ex={}
for F in (ModbusRtuFramer,ModbusAsciiFramer,ModbusBinaryFramer,ModbusSocketFramer):
  for Dec,mk in ((ServerDecoder,mk_req),(ClientDecoder,mk_resp)):
    for it in range(150):
        m=mk(); p=F(Dec()).buildPacket(m)
        if F is ModbusBinaryFramer and (0x7b in p[1:-1] or 0x7d in p[1:-1]): continue
        orig=sig(m)
        for i in range(len(p)*8):
            b=bytearray(p); b[i//8]^=1<<(i%8); b=bytes(b)
            got,exc=feed(F,Dec,[b])
            res[(F.__name__,Dec.__name__)]['flips']+=1
            if got:
                kind='same-as-original' if got==[orig] else 'DIFFERENT'
                if F is ModbusAsciiFramer and b.upper()==p.upper(): kind='caseflip-same'
                res[(F.__name__,Dec.__name__)][kind]+=1
                if kind=='DIFFERENT': ex.setdefault((F.__name__,Dec.__name__),(p.hex(),b.hex(),got))
            if exc: res[(F.__name__,Dec.__name__)]['exc:'+exc[0]]+=1
for k,v in res.items(): print(k,dict(v))
for k,v in ex.items(): print(k,v)
