import logging; logging.disable(logging.CRITICAL)
import socket, threading, time, random, struct
from pymodbus.server.sync import ModbusTcpServer, ModbusUdpServer
from pymodbus.datastore import *
from pymodbus.transaction import *
R=random.Random(2)
ctx=ModbusServerContext(slaves=ModbusSlaveContext(hr=ModbusSequentialDataBlock(0,[0]*100),zero_mode=True),single=True)
srv=ModbusTcpServer(ctx, address=("127.0.0.1",0), allow_reuse_address=True); port=srv.server_address[1]
th=threading.Thread(target=srv.serve_forever, kwargs={'poll_interval':0.05}, daemon=True); th.start()
def probe():
    s=socket.create_connection(("127.0.0.1",port),timeout=2); s.sendall(bytes.fromhex("000100000006010300000002"))
    try: d=s.recv(100)
    except Exception as e: d=repr(e)
    s.close(); return d
t=time.time(); closed=0; answered=0
for i in range(300):
    s=socket.create_connection(("127.0.0.1",port),timeout=0.5)
    blob=bytes(R.randrange(256) for _ in range(R.randrange(1,64)))
    try:
        s.sendall(blob); s.settimeout(0.05)
        try:
            d=s.recv(100)
            if d==b'': closed+=1
            else: answered+=1
        except socket.timeout: pass
    except OSError: closed+=1
    s.close()
print("300 hostile conns: closed",closed,"answered",answered, "time",round(time.time()-t,2), "threads", threading.active_count(), "handlers", len(srv.threads))
print("probe:", probe().hex())
srv.shutdown(); srv.server_close(); print("shutdown ok", round(time.time()-t,2))
