import logging; logging.disable(logging.CRITICAL)
import random, collections
from pymodbus.device import ModbusControlBlock
from pymodbus.mei_message import *
from pymodbus.factory import ClientDecoder, ServerDecoder
R=random.Random(11)
data=ModbusControlBlock().Identity._ModbusDeviceIdentification__data
def setid(d): data.clear(); data.update({i:'' for i in range(9)}); data.update(d)
CAT={1:range(0,3),2:range(0,7),3:[x for x in range(256) if x<7 or x>=0x80]}
bad=collections.Counter(); ex={}
for it in range(6000):
    ids=R.sample(list(range(7))+list(range(0x80,0x100)), R.randrange(0,9))
    ident={i: ''.join(chr(R.randrange(33,127)) for _ in range(R.choice([0,1,2,50,100,120,121,122,123,243,244,R.randrange(0,245)]))) for i in ids}
    setid(ident)
    for rc in (1,2,3,4):
        starts=[0]+[i for i in ids if ident[i] and (rc==4 or i in CAT[rc])]
        for start in starts:
            oid=start; got=[]; pages=0; term=False; big=False
            while pages<40:
                req=ServerDecoder().decode(bytes([0x2b])+ReadDeviceInformationRequest(rc,oid).encode())
                resp=req.execute(None); pdu=bytes([resp.function_code])+resp.encode(); pages+=1
                if len(pdu)>253: big=True
                d=ClientDecoder().decode(pdu)
                for k,v in d.information.items(): got.append((k,v if not isinstance(v,list) else tuple(v)))
                if d.more_follows!=0xFF: term=True; break
                oid=d.next_object_id
            if rc==4: exp=[(start,ident.get(start,'').encode())]
            else: exp=[(i,ident[i].encode()) for i in sorted(ident) if ident[i] and i in CAT[rc] and i>=start]
            key=None
            if big: key='>253'
            elif not term: key='nonterminating'
            elif sorted(got)!=sorted(exp): key='incomplete/dup'
            if key:
                bad[(rc,key)]+=1
                ex.setdefault((rc,key),(start,{k:len(v) for k,v in ident.items()},[(k,len(v)) for k,v in got][:8]))
print(dict(bad))
for k,v in ex.items(): print(k,v)
