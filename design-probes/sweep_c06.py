import logging; logging.disable(logging.CRITICAL)
import random, collections
from pymodbus.factory import ServerDecoder, ClientDecoder
from pymodbus.transaction import *
from pymodbus.register_read_message import *; from pymodbus.register_write_message import *
from pymodbus.bit_read_message import *; from pymodbus.bit_write_message import *
from pymodbus.pdu import ExceptionResponse
R=random.Random(4)
def mk_req():
    k=R.randrange(6); u=R.choice([1,1,2,17]); t=R.randrange(65536)
    if k==0: m=ReadHoldingRegistersRequest(R.randrange(100),R.randrange(1,20))
    elif k==1: m=WriteSingleRegisterRequest(R.randrange(100),R.randrange(65536))
    elif k==2: m=WriteMultipleRegistersRequest(R.randrange(100),[R.randrange(65536) for _ in range(R.randrange(1,6))])
    elif k==3: m=WriteMultipleCoilsRequest(R.randrange(100),[R.random()<.5 for _ in range(R.randrange(1,20))])
    elif k==4: m=ReadCoilsRequest(R.randrange(100),R.randrange(1,50))
    else: m=MaskWriteRegisterRequest(R.randrange(100),R.randrange(65536),R.randrange(65536))
    m.unit_id=u; m.transaction_id=t; return m
def mk_resp():
    k=R.randrange(5); u=R.choice([1,1,2,17]); t=R.randrange(65536)
    if k==0: m=ReadHoldingRegistersResponse([R.randrange(65536) for _ in range(R.randrange(1,10))])
    elif k==1: m=WriteSingleRegisterResponse(R.randrange(100),R.randrange(65536))
    elif k==2: m=ReadCoilsResponse([R.random()<.5 for _ in range(8*R.randrange(1,4))])
    elif k==3: m=ExceptionResponse(R.choice([1,3,16]),R.randrange(1,5))
    else: m=WriteMultipleRegistersResponse(R.randrange(100),R.randrange(1,100))
    m.unit_id=u; m.transaction_id=t; return m
def sig(m):
    try: e=m.encode().hex()
    except Exception: e='<noenc>'
    return (type(m).__name__, m.unit_id, e)
def feed(F,Dec,chunks):
    f=F(Dec()); out=[]; exc=[]
    for c in chunks:
        try: f.processIncomingPacket(c,out.append,[0],single=True)
        except Exception as e: exc.append(type(e).__name__)
    return [sig(m) for m in out], exc
stats=collections.defaultdict(collections.Counter)
for F in (ModbusSocketFramer,ModbusRtuFramer,ModbusAsciiFramer,ModbusBinaryFramer):
  for Dec,mk in ((ServerDecoder,mk_req),(ClientDecoder,mk_resp)):
    for it in range(4000):
        ms=[mk() for _ in range(R.randrange(1,5))]
        pk=[F(Dec()).buildPacket(m) for m in ms]
        if F is ModbusBinaryFramer and any(0x7b in p[1:-1] or 0x7d in p[1:-1] for p in pk): continue
        base,bexc=feed(F,Dec,pk)
        if bexc or len(base)!=len(ms): stats[(F.__name__,Dec.__name__)]['BASE-BROKEN']+=1; continue
        stream=b''.join(pk); n=len(stream)
        ends=set(); o=0
        for p in pk: o+=len(p); ends.add(o)
        mode=R.randrange(4)
        if mode==0: cuts=sorted(R.sample(range(1,n),min(n-1,R.randrange(1,4))))
        elif mode==1: cuts=sorted(R.sample(sorted(ends-{n}),R.randrange(0,len(ends)))) if len(ends)>1 else []
        elif mode==2: cuts=list(range(1,n))
        else: cuts=sorted(set(R.sample(range(1,n),min(n-1,R.randrange(1,6))))|set(R.sample(sorted(ends-{n}),min(len(ends)-1,1))))
        bounds=[0]+cuts+[n]; chunks=[stream[a:b] for a,b in zip(bounds,bounds[1:])]
        if R.random()<.2: chunks.insert(R.randrange(len(chunks)+1),b'')
        tags=set()
        if any(c not in ends for c in cuts): tags.add('split')
        # multi-frame: some chunk contains >1 frame end (counting pending)
        prev=0
        for a,b in zip(bounds,bounds[1:]):
            k=len([e for e in ends if a<e<=b])
            if k>1: tags.add('multi')
        got,exc=feed(F,Dec,chunks)
        ok = (got==base and not exc)
        tagkey=','.join(sorted(tags)) or 'clean'
        stats[(F.__name__,Dec.__name__)][(tagkey,'ok' if ok else 'FAIL')]+=1
for k,v in stats.items(): print(k, dict(sorted(v.items(),key=str)))
