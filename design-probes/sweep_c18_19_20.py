import logging; logging.disable(logging.CRITICAL)
import random, struct, itertools, collections
from pymodbus.datastore import *
from pymodbus.exceptions import *
R=random.Random(7)
# ---- C18 exhaustive small sweep sequential
bad=collections.Counter(); n=0
for start in (0,1,5,65530):
  for size in range(1,7):
    for addr in range(max(0,start-2), start+size+3):
      for count in range(1,size+4):
        b=ModbusSequentialDataBlock(start, list(range(100,100+size)))
        exp = start<=addr and addr+count<=start+size
        n+=1
        if b.validate(addr,count)!=exp: bad['seq validate']+=1
        if exp:
            if b.getValues(addr,count)!=[100+(a-start) for a in range(addr,addr+count)]: bad['seq get']+=1
            b.setValues(addr,[7]*count)
            cells=dict(iter(b))
            want={a:(7 if addr<=a<addr+count else 100+a-start) for a in range(start,start+size)}
            if cells!=want: bad['seq set']+=1
print("C18 seq", n, dict(bad))
bad=collections.Counter(); n=0
for keys in itertools.chain.from_iterable(itertools.combinations(range(3,9),k) for k in range(1,7)):
    for addr in range(1,11):
        for count in range(1,7):
            b=ModbusSparseDataBlock({k:100+k for k in keys}); n+=1
            exp=all(a in keys for a in range(addr,addr+count))
            if b.validate(addr,count)!=exp: bad['sp validate']+=1
            if exp:
                if b.getValues(addr,count)!=[100+a for a in range(addr,addr+count)]: bad['sp get']+=1
                b.setValues(addr,[7]*count)
                if dict(iter(b))!={k:(7 if addr<=k<addr+count else 100+k) for k in keys}: bad['sp set']+=1
print("C18 sparse", n, dict(bad))
# server context
bad=collections.Counter()
for single in (True,False):
    sc=ModbusServerContext(slaves=ModbusSlaveContext() if single else {1:ModbusSlaveContext(),5:ModbusSlaveContext()}, single=single)
    model={0:1} if single else {1:1,5:1}
    for u in (0,1,5,6,247,248,255,256,-1):
        try: sc[u]; got=True
        except NoSuchSlaveException: got=False
        except Exception as e: got='EXC '+type(e).__name__
        exp = True if single else u in model
        if got!=exp: bad[('get',single,u,got)]+=1
        try: sc[u]=ModbusSlaveContext(); s=True
        except NoSuchSlaveException: s=False
        except Exception as e: s='EXC '+type(e).__name__
        exps = True if single else (0<=u<=247)
        if s!=exps: bad[('set',single,u,s)]+=1
print("C18 srvctx", dict(bad))
# ---- C19
from pymodbus.payload import BinaryPayloadBuilder, BinaryPayloadDecoder
from pymodbus.constants import Endian
def ref(kind,v,bo,wo):
    if kind in 'BbHh' or kind=='s' or kind=='bits':
        if kind=='s': return v
        if kind=='bits':
            out=bytearray()
            for i in range(0,len(v),8):
                byte=0
                for j,bit in enumerate(v[i:i+8]): byte|=(1<<j) if bit else 0
                out.append(byte)
            return bytes(out)
        if kind in 'Bb': return struct.pack('>'+kind,v)
        raw=struct.pack('>'+kind,v); return raw if bo=='>' else raw[::-1]
    raw=struct.pack('>'+kind,v); words=[raw[i:i+2] for i in range(0,len(raw),2)]
    if wo=='<': words=words[::-1]
    if bo=='<': words=[w[::-1] for w in words]
    return b''.join(words)
kinds={'B':('add_8bit_uint','decode_8bit_uint',lambda:R.choice([0,255,R.randrange(256)])),'b':('add_8bit_int','decode_8bit_int',lambda:R.choice([-128,127,R.randrange(-128,128)])),
 'H':('add_16bit_uint','decode_16bit_uint',lambda:R.choice([0,65535,R.randrange(65536)])),'h':('add_16bit_int','decode_16bit_int',lambda:R.choice([-32768,32767,R.randrange(-32768,32768)])),
 'I':('add_32bit_uint','decode_32bit_uint',lambda:R.choice([0,2**32-1,R.randrange(2**32)])),'i':('add_32bit_int','decode_32bit_int',lambda:R.choice([-2**31,2**31-1,R.randrange(-2**31,2**31)])),
 'Q':('add_64bit_uint','decode_64bit_uint',lambda:R.choice([0,2**64-1,R.randrange(2**64)])),'q':('add_64bit_int','decode_64bit_int',lambda:R.choice([-2**63,2**63-1,R.randrange(-2**63,2**63)])),
 'e':('add_16bit_float','decode_16bit_float',lambda:struct.unpack('>e',struct.pack('>H',R.randrange(65536)))[0]),
 'f':('add_32bit_float','decode_32bit_float',lambda:struct.unpack('>f',struct.pack('>I',R.randrange(2**32)))[0]),
 'd':('add_64bit_float','decode_64bit_float',lambda:struct.unpack('>d',struct.pack('>Q',R.randrange(2**64)))[0])}
bad=collections.Counter(); n=0
for _ in range(20000):
    bo=R.choice('<>'); wo=R.choice('<>')
    b=BinaryPayloadBuilder(byteorder=bo,wordorder=wo); items=[]; exp=b''
    for _ in range(R.randrange(1,10)):
        k=R.choice(list(kinds)+['s','bits'])
        if k=='s': v=bytes(R.randrange(256) for _ in range(R.randrange(1,6))); b.add_string(v)
        elif k=='bits': v=[R.random()<.5 for _ in range(8*R.randrange(1,3))]; b.add_bits(v)
        else: v=kinds[k][2](); getattr(b,kinds[k][0])(v)
        items.append((k,v)); exp+=ref(k,v,bo,wo)
    n+=1
    if b.to_string()!=exp: bad['layout']+=1; continue
    for via in ('raw','regs'):
        if via=='raw': d=BinaryPayloadDecoder(b.to_string(),byteorder=bo,wordorder=wo)
        else: d=BinaryPayloadDecoder.fromRegisters(b.to_registers(),byteorder=bo,wordorder=wo)
        for k,v in items:
            if k=='s': got=d.decode_string(len(v)); ok=got==v
            elif k=='bits':
                got=[]; 
                for _ in range(len(v)//8): got+=d.decode_bits()
                ok=got==v
            else:
                got=getattr(d,kinds[k][1])()
                ok = struct.pack('>'+k,got)==struct.pack('>'+k,v)
            if not ok: bad[(via,k)]+=1; break
print("C19", n, dict(bad))
