#!/venv/bin/python
"""Self-consistency of the trusted base: decode(encode(m)) == m, pdu_len(encode(m)) == len,
parse_stream(build(...)) returns the frame, candidates() contains it - for every message kind."""
import os, sys, random
sys.path.insert(0, os.path.dirname(os.path.dirname(os.path.abspath(__file__))))
from vmon import gen
from vmon.spec import pdu as S, adu as ADU

r = random.Random(1)
n = bad = 0
for k in gen.KINDS:
    d, fc, sub = k
    for i in range(300):
        m = gen.message(r, d, fc, sub, small=(i % 2 == 0))
        try:
            b = S.encode(m)
        except S.SpecError:
            continue
        if len(b) > 253:
            continue
        n += 1
        dd = m['dir']
        back = S.decode(dd, b)
        mm = dict(m)
        if 'bits' in mm and dd == 'rsp':
            mm['bits'] = S.pad_bits(mm['bits'])
        if S.norm(back) != S.norm(mm):
            bad += 1; print('decode mismatch', k, m, back)
        if not (fc == 8):
            L = S.pdu_len(dd, b)
            if L != len(b):
                bad += 1; print('pdu_len', k, L, len(b), b.hex())
            for cut in range(1, len(b)):
                L2 = S.pdu_len(dd, b[:cut])
                if L2 not in (None, len(b)):
                    bad += 1; print('pdu_len prefix', k, cut, L2, len(b)); break
        for fr in ('tcp', 'rtu', 'ascii', 'binary'):
            pkt = ADU.build(fr, 9, b, tid=77)
            frames, pos, err = ADU.parse_stream(fr, dd, pkt + pkt)
            if err or len(frames) != 2 or frames[0].pdu != b or frames[1].unit != 9:
                bad += 1; print('parse_stream', fr, k, err, frames, pkt.hex()[:60])
            if i < 20 and len(pkt) < 40:
                c = ADU.candidates(fr, dd, b'\x00' + pkt + b'\x01')
                if not any(f.pdu == b and f.unit == 9 for f in c):
                    bad += 1; print('candidates', fr, k)
print('checked', n, 'bad', bad)
sys.exit(1 if bad else 0)
