#!/bin/bash
# run every thorough tier once (scratch evidence), sequentially; report one line per check
mkdir -p /verif/out/thorough
for c in ${@:-C01 C02 C03 C04 C05 C06 C07 C08 C09 C10 C11 C12 C13 C14 C15 C16 C17 C18 C19 C20}; do
  t0=$(date +%s)
  VERIF_SELFTEST=1 VERIF_SEED=${SEED:-0} /verif/check $c --tier thorough > /verif/out/thorough/$c.log 2>&1
  rc=$?
  echo "$c exit=$rc $(( $(date +%s) - t0 ))s $(grep -v '^KNOWN' /verif/out/thorough/$c.log | tail -1 | cut -c1-160)"
done
