"""Realistic property-breaking edits used to validate the monitors (DESIGN.md section 6).
(id, property, file, old, new)"""
MUTANTS = [
 # ---- C01
 ('c01-bitcount-ceil', 'C01', 'pymodbus/bit_write_message.py', "self.byte_count = (count + 7) // 8\n        packet", "self.byte_count = count // 8 + 1\n        packet"),
 ('c01-pack-shift', 'C01', 'pymodbus/utilities.py', "packed >>= (7 - i)", "packed >>= (8 - i)"),
 ('c01-diag-table-swap', 'C01', 'pymodbus/diag_message.py', "class ReturnSlaveNAKCountRequest(DiagnosticStatusSimpleRequest):\n    '''\n    The response data field returns the quantity of messages addressed to the\n    remote device for which it returned a Negative Acknowledge (NAK) exception\n    response, since its last restart, clear counters operation, or power-up.\n    Exception responses are described and listed in section 7 .\n    '''\n    sub_function_code = 0x0010", "class ReturnSlaveNAKCountRequest(DiagnosticStatusSimpleRequest):\n    '''\n    '''\n    sub_function_code = 0x0011"),
 ('c01-maskwrite-rsp-order', 'C01', 'pymodbus/register_write_message.py', "    def decode(self, data):\n        ''' Decodes a the response\n\n        :param data: The packet data to decode\n        '''\n        self.address, self.and_mask, self.or_mask = struct.unpack('>HHH',", "    def decode(self, data):\n        ''' Decodes a the response\n\n        :param data: The packet data to decode\n        '''\n        self.address, self.or_mask, self.and_mask = struct.unpack('>HHH',"),
 ('c01-exception-code-mask', 'C01', 'pymodbus/pdu.py', "self.exception_code = byte2int(data[0])", "self.exception_code = byte2int(data[0]) & 0x7f"),
 # ---- C02
 ('c02-drop-reset-in-decode', 'C02', 'pymodbus/register_write_message.py', "        self.values = []  # reset\n", ""),
 ('c02-encode-writes-field', 'C02', 'pymodbus/register_read_message.py', "        result = int2byte(len(self.registers) * 2)\n        for register in self.registers:\n            result += struct.pack('>H', register)\n        return result\n\n    def decode(self, data):\n        ''' Decode a register response packet\n\n        :param data: The request to decode\n        '''\n        byte_count = byte2int(data[0])\n        self.registers = []", "        result = int2byte(len(self.registers) * 2)\n        for register in self.registers:\n            result += struct.pack('>H', register)\n        self.registers = self.registers[:64]\n        return result\n\n    def decode(self, data):\n        ''' Decode a register response packet\n\n        :param data: The request to decode\n        '''\n        byte_count = byte2int(data[0])\n        self.registers = []"),
 ('c02-coils-values-untrimmed', 'C02', 'pymodbus/bit_write_message.py', "self.values = values[:count]", "self.values = values"),
 ('c02-rdi-count-accumulates', 'C02', 'pymodbus/mei_message.py', "        self.number_of_objects = 0\n        objects = b''", "        objects = b''"),
 # ---- C19
 ('c19-skip-reverse-64', 'C19', 'pymodbus/payload.py', "        if self._wordorder == Endian.Little:\n            payload = list(reversed(payload))", "        if self._wordorder == Endian.Little and wc != 4:\n            payload = list(reversed(payload))"),
 ('c19-registers-byteorder', 'C19', 'pymodbus/payload.py', "        fstring = '!H'\n        payload = self.build()", "        fstring = self._byteorder + 'H'\n        payload = self.build()"),
 ('c19-signed-for-unsigned', 'C19', 'pymodbus/payload.py', "        self._pointer += 4\n        fstring = 'I'", "        self._pointer += 4\n        fstring = 'i'"),
 ('c19-decode-string-pointer', 'C19', 'pymodbus/payload.py', "        self._pointer += size\n        s = self._payload[self._pointer - size:self._pointer]", "        s = self._payload[self._pointer:self._pointer + size]\n        self._pointer += max(size, 1)"),
 # ---- C18
 ('c18-seq-validate-gt', 'C18', 'pymodbus/datastore/store.py', "result &= ((self.address + len(self.values)) >= (address + count))", "result &= ((self.address + len(self.values)) > (address + count))"),
 ('c18-seq-validate-start', 'C18', 'pymodbus/datastore/store.py', "result  = (self.address <= address)", "result  = (self.address < address) or address == 0"),
 ('c18-sparse-validate-last', 'C18', 'pymodbus/datastore/store.py', "handle = set(range(address, address + count))", "handle = set(range(address, address + count - 1)) or set([address])"),
 ('c18-get-slice-end', 'C18', 'pymodbus/datastore/store.py', "return self.values[start:start + count]", "return self.values[start:start + count + (start == 3)]"),
 ('c18-zero-mode-twice', 'C18', 'pymodbus/datastore/context.py', "        if not self.zero_mode:\n            address = address + 1\n        _logger.debug(\"setValues[%d] %d:%d\" % (fx, address, len(values)))", "        if not self.zero_mode:\n            address = address + 2\n        _logger.debug(\"setValues[%d] %d:%d\" % (fx, address, len(values)))"),
 ('c18-unit-range-ff', 'C18', 'pymodbus/datastore/context.py', "        if 0xf7 >= slave >= 0x00:\n            self._slaves[slave] = context", "        if 0xff >= slave >= 0x00:\n            self._slaves[slave] = context"),
 ('c18-sparse-reset-list', 'C18', 'pymodbus/datastore/store.py', "        self.values = dict.fromkeys(self.values, self.default_value)", "        self.values = [self.default_value] * len(self.values)"),
 ('c18-fx-map', 'C18', 'pymodbus/interfaces.py', "__fx_mapper = {2: 'd', 4: 'i'}", "__fx_mapper = {2: 'd', 4: 'h'}"),
 # ---- C20
 ('c20-space-slack', 'C20', 'pymodbus/mei_message.py', "if self.space_left <= 0:", "if self.space_left < -16:"),
 ('c20-next-id-unset', 'C20', 'pymodbus/mei_message.py', "            self.next_object_id = e.oid\n", "            pass\n"),
 ('c20-regular-range', 'C20', 'pymodbus/device.py', "DeviceInformation.Regular: lambda c, r, i: c.__gets(r, list(range(i, 0x07))", "DeviceInformation.Regular: lambda c, r, i: c.__gets(r, list(range(i, 0x06))"),
 ('c20-space-253', 'C20', 'pymodbus/mei_message.py', "self.space_left = 253 - 6", "self.space_left = 253"),
 ('c20-extended-skips-80', 'C20', 'pymodbus/device.py', "[x for x in range(i, 0x100) if x not in range(0x07, 0x80)]\n            if", "[x for x in range(i, 0x100) if x not in range(0x07, 0x81)]\n            if"),
 ('c20-rtu-size', 'C20', 'pymodbus/mei_message.py', "            size += object_length + 2\n            count -= 1", "            size += object_length + 2\n            count -= 2"),
 # ---- C14
 ('c14-bits-size', 'C14', 'pymodbus/bit_read_message.py', "        count = self.count//8\n        if self.count % 8:\n            count += 1\n", "        count = self.count//8 + 1\n"),
 ('c14-binary-base', 'C14', 'pymodbus/transaction.py', "self.base_adu_size = 5  # start(1) + Address(1), CRC(2) + end(1)", "self.base_adu_size = 4  # start(1) + Address(1), CRC(2) + end(1)"),
 ('c14-ascii-exception', 'C14', 'pymodbus/transaction.py', "return self.base_adu_size + 4  # Fcode(2), ExcecptionCode(2)", "return self.base_adu_size + 2  # Fcode(2), ExcecptionCode(2)"),
 ('c14-rw-size', 'C14', 'pymodbus/register_read_message.py', "        return 1 + 1 + 2 * self.read_count", "        return 1 + 1 + 2 * self.write_count"),
 ('c14-rtu-minsize', 'C14', 'pymodbus/transaction.py', "            elif isinstance(self.client.framer, ModbusRtuFramer):\n                min_size = 2", "            elif isinstance(self.client.framer, ModbusRtuFramer):\n                min_size = 3"),
 ('c14-ascii-doubling', 'C14', 'pymodbus/transaction.py', "response_pdu_size = response_pdu_size * 2", "response_pdu_size = response_pdu_size * 2 - (response_pdu_size > 200)"),
 # ---- C03
 ('c03-crc-byteorder', 'C03', 'pymodbus/framer/rtu_framer.py', '        packet += struct.pack(">H", computeCRC(packet))\n        message.transaction_id', '        packet += struct.pack("<H", computeCRC(packet))\n        message.transaction_id'),
 ('c03-ascii-lower', 'C03', 'pymodbus/framer/ascii_framer.py', "return bytes(packet).upper()", "return bytes(packet)"),
 ('c03-mbap-len', 'C03', 'pymodbus/framer/socket_framer.py', "                             len(data) + 2,", "                             len(data) + 1,"),
 ('c03-lrc-pdu-only', 'C03', 'pymodbus/framer/ascii_framer.py', "checksum = computeLRC(encoded + buffer)", "checksum = computeLRC(encoded + buffer[1:])"),
 ('c03-rtu-bytecount-pos', 'C03', 'pymodbus/other_message.py', "    function_code = 0x0c\n    _rtu_byte_count_pos = 2", "    function_code = 0x0c\n    _rtu_byte_count_pos = 3"),
 ('c03-crc-table', 'C03', 'pymodbus/utilities.py', "        result.append(crc)\n    return result", "        result.append(crc)\n    result[0xA7] ^= 0x0100\n    return result"),
 ('c03-tcp-uid-lost', 'C03', 'pymodbus/framer/socket_framer.py', "        result.unit_id = self._header['uid']", "        result.unit_id = self._header['uid'] & 0x7f"),
 ('c03-binary-crc-over-raw', 'C03', 'pymodbus/framer/binary_framer.py', "        if end != -1:\n            self._header['len'] = end\n            self._header['uid'] = struct.unpack('>B', self._buffer[1:2])[0]", "        if end != -1:\n            self._header['len'] = end\n            self._header['uid'] = struct.unpack('>B', self._buffer[2:3])[0]"),
 # ---- C06
 ('c06-ascii-advance', 'C06', 'pymodbus/framer/ascii_framer.py', "self._buffer = self._buffer[self._header['len'] + 2:]", "self._buffer = self._buffer[self._header['len'] + 3:]"),
 ('c06-ascii-ready', 'C03', 'pymodbus/framer/ascii_framer.py', "        return len(self._buffer) > 1", "        return len(self._buffer) > 12"),
 ('c06-tcp-single-pass', 'C06', 'pymodbus/framer/socket_framer.py', "                    if self._header['len'] < 2:\n                        self._process(callback, error=True)\n                break", "                    if self._header['len'] < 2:\n                        self._process(callback, error=True)\n                break\n            break"),
 ('c06-ascii-add-replaces', 'C06', 'pymodbus/framer/ascii_framer.py', "        self._buffer += message", "        self._buffer = (self._buffer if len(self._buffer) < 40 else b'') + message"),
 ('c06-ascii-reset-on-incomplete', 'C06', 'pymodbus/framer/ascii_framer.py', "            else:\n                break\n\n    def buildPacket", "            else:\n                if len(self._buffer) > 30: self.resetFrame()\n                break\n\n    def buildPacket"),
 ('c06-tcp-advance-extra', 'C06', 'pymodbus/framer/socket_framer.py', "        length = self._hsize + self._header['len'] - 1\n        self._buffer = self._buffer[length:]", "        length = self._hsize + self._header['len'] - 1\n        self._buffer = self._buffer[length + (1 if length > 20 else 0):]"),
 # ---- C07
 ('c07-crc-lowbyte', 'C07', 'pymodbus/utilities.py', "    return computeCRC(data) == check", "    return (computeCRC(data) & 0xff) == (check & 0xff)"),
 ('c07-lrc-7bit', 'C07', 'pymodbus/utilities.py', "    return computeLRC(data) == check", "    return (computeLRC(data) & 0x7f) == (check & 0x7f)"),
 ('c07-rtu-check-true-on-exc', 'C07', 'pymodbus/framer/rtu_framer.py', "        except (IndexError, KeyError, struct.error):\n            return False", "        except (IndexError, KeyError, struct.error):\n            return len(self._buffer) >= 4"),
 ('c07-crc-table', 'C07', 'pymodbus/utilities.py', "        result.append(crc)\n    return result", "        result.append(crc)\n    result[0x31] = result[0x30]\n    return result"),
 ('c07-binary-nocrc-short', 'C07', 'pymodbus/framer/binary_framer.py', "            return checkCRC(data, self._header['crc'])\n        return False\n\n    def advanceFrame", "            return checkCRC(data, self._header['crc']) or len(data) == 5\n        return False\n\n    def advanceFrame"),
 ('c07-ascii-lrc-skip-uid', 'C07', 'pymodbus/framer/ascii_framer.py', "            data = a2b_hex(self._buffer[start + 1:end - 2])\n            return checkLRC(data, self._header['lrc'])", "            data = a2b_hex(self._buffer[start + 1:end - 2])\n            return checkLRC(data, self._header['lrc']) or checkLRC(data[1:], self._header['lrc'])"),
 # ---- C11
 ('c11-rtu-reset-keeps-buffer', 'C11', 'pymodbus/framer/rtu_framer.py', "        self._buffer = b''\n        self._header = {}", "        self._buffer = self._buffer[:0] if len(self._buffer) < 6 else self._buffer\n        self._header = {}"),
 ('c11-binary-no-skip', 'C11', 'pymodbus/framer/binary_framer.py', "        if start > 0:  # go ahead and skip old bad data\n            self._buffer = self._buffer[start:]\n\n        end", "        if start > 0:  # go ahead and skip old bad data\n            pass\n\n        end"),
 ('c11-rtu-no-reset-on-failed-check', 'C11', 'pymodbus/framer/rtu_framer.py', "                _logger.debug(\"Frame check failed, ignoring!!\")\n                self.resetFrame()\n        else:", "                _logger.debug(\"Frame check failed, ignoring!!\")\n                self._header = {}\n        else:"),
 ('c11-rtu-foreign-unit-no-reset', 'C11', 'pymodbus/framer/rtu_framer.py', "                                  \"ignoring!!\".format(self._header['uid']))\n                    self.resetFrame()\n            else:\n                _logger.debug(\"Frame check failed, ignoring!!\")\n                self.resetFrame()", "                                  \"ignoring!!\".format(self._header['uid']))\n            else:\n                _logger.debug(\"Frame check failed, ignoring!!\")\n                self.resetFrame()"),
 ('c11-ascii-skip-disabled', 'C11', 'pymodbus/framer/ascii_framer.py', "        if start > 0:  # go ahead and skip old bad data\n            self._buffer = self._buffer[start:]\n            start = 0", "        if start > 0:  # go ahead and skip old bad data\n            return False"),
]
