#!/usr/bin/env python3
"""Regenerate MANIFEST.json from the table below (keeps it valid at all times)."""
import json, os
ROOT = os.path.dirname(os.path.dirname(os.path.abspath(__file__)))
BASE = "cd /repo && /venv/bin/python -m pytest -ra -q -p no:cacheprovider --timeout=900 --continue-on-collection-errors"

CHECKS = {}

def C(pid, cat, technique, text, note, ref):
    CHECKS[pid] = dict(cat=cat, technique=technique, text=text, note=note, ref=ref)

exec(open(os.path.join(ROOT, 'tools', 'manifest_table.py')).read())

props = [json.loads(l)['id'] for l in open(os.path.join(ROOT, 'properties.jsonl'))]
man = {
 "version": 1,
 "setup_cmd": "./check --setup",
 "hooks": {"guard": "PYMODBUS_VERIF", "enable": "none needed: no source hooks; checks import /repo's working tree directly (VERIF_REPO overrides the path)",
           "baseline_off_cmd": BASE, "source_commits": [], "add_only": True},
 "engines": [{"name": "vmon", "path": "vmon/", "serves_properties": sorted(CHECKS),
              "kind_free_text": "Python runtime-monitoring framework: spec reference models run in lock-step with the real code, trace checkers over recorded events, OS doubles with virtual time, deterministic thread scheduler"}],
 "checks": [], "not_applicable": [],
 "notes": "All checks: ./check <id> --tier quick|thorough; replay with ./check <id> --replay <file>. See DESIGN.md.",
}
for pid in props:
    if pid in CHECKS:
        c = CHECKS[pid]
        man["checks"].append({
            "property_id": pid, "quick_cmd": "./check %s --tier quick" % pid,
            "thorough_cmd": "./check %s --tier thorough" % pid,
            "evidence_file": "evidence/%s.json" % pid,
            "replay_cmd_template": "./check %s --replay {path}" % pid,
            "engine": "vmon",
            "level_claimed": {"category": c['cat'], "text": c['text'], "design_ref": c['ref']},
            "level_note": c['note'], "technique": c['technique']})
    else:
        man["not_applicable"].append({"property_id": pid, "reason": "check not built yet in this round (runtime monitoring applies; see DESIGN.md section 5)"})
json.dump(man, open(os.path.join(ROOT, 'MANIFEST.json'), 'w'), indent=1)
print('checks:', len(man['checks']), 'not_applicable:', len(man['not_applicable']))
