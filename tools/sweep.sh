#!/bin/bash
# usage: tools/sweep.sh <tier> <first_seed> <last_seed> [checks...]   - runs against a scratch evidence dir (VERIF_SELFTEST) so committed evidence is untouched
tier=$1; a=$2; b=$3; shift 3
checks=${@:-C01 C02 C03 C04 C05 C06 C07 C08 C09 C10 C11 C12 C13 C14 C15 C16 C17 C18 C19 C20}
mkdir -p /verif/out/sweep
for c in $checks; do for s in $(seq $a $b); do echo "$c $s"; done; done | \
  xargs -P ${SWEEP_JOBS:-10} -L 1 bash -c 'VERIF_SELFTEST=1 VERIF_SEED=$1 /verif/check $0 --tier '$tier' > /verif/out/sweep/$0-'$tier'-$1.log 2>&1; echo "$0 seed=$1 exit=$? $(grep -v "^KNOWN" /verif/out/sweep/$0-'$tier'-$1.log | tail -1 | cut -c1-150)"'
