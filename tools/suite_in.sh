#!/bin/bash
# usage: tools/suite_in.sh <tree>  - the repository's pinned suite in another tree (scratch worktree), compared with BASELINE.json stable_pass
T=$1; OUT=$(mktemp -d /tmp/vbase.XXXX)
cd $T && env -u PYMODBUS_VERIF PYTHONPATH=$T PYTHONDONTWRITEBYTECODE=1 /venv/bin/python -m pytest -ra -q -p no:cacheprovider --timeout=900 --continue-on-collection-errors --junitxml=$OUT/j.xml >$OUT/log 2>&1
/venv/bin/python - "$OUT/j.xml" <<'PY'
import sys, json, xml.etree.ElementTree as ET
base=set(json.load(open('/root/.vp/BASELINE.json'))['stable_pass'])
passed=set()
for tc in ET.parse(sys.argv[1]).getroot().iter('testcase'):
    if not any(c.tag in ('failure','error','skipped') for c in tc):
        passed.add('%s::%s'%(tc.get('classname'),tc.get('name')))
missing=sorted(base-passed)
print('passed',len(passed),'baseline',len(base),'baseline tests not passing:',len(missing))
for m in missing[:20]: print('  MISSING',m)
sys.exit(1 if missing else 0)
PY
rc=$?; rm -rf $OUT; exit $rc
