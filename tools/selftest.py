#!/venv/bin/python
"""Mutation kill matrix: apply each realistic property-breaking edit to a scratch copy of
/repo (outside /repo and /verif), run the property's quick check against it with
VERIF_REPO, require exit 1, delete the copy.   usage: selftest.py [-j N] [--suite] [ids or property ids...]"""
import json
import os
import shutil
import subprocess
import sys
import tempfile
from concurrent.futures import ThreadPoolExecutor

ROOT = os.path.dirname(os.path.dirname(os.path.abspath(__file__)))
sys.path.insert(0, os.path.join(ROOT, 'tools'))
from mutants import MUTANTS  # noqa: E402


def one(mut, suite=False):
    mid, prop, path, old, new = mut[:5]
    tmp = tempfile.mkdtemp(prefix='vmut-%s-' % mid, dir='/tmp')
    try:
        subprocess.run(['git', '-C', '/repo', 'worktree', 'list'], stdout=subprocess.DEVNULL)
        shutil.copytree('/repo/pymodbus', os.path.join(tmp, 'pymodbus'))
        f = os.path.join(tmp, path)
        s = open(f).read()
        if s.count(old) < 1:
            return mid, prop, 'PATCH-DOES-NOT-APPLY', ''
        open(f, 'w').write(s.replace(old, new, 1))
        res = {}
        if suite:
            shutil.copytree('/repo/test', os.path.join(tmp, 'test'))
            for extra in ('setup.cfg',):
                if os.path.exists('/repo/' + extra):
                    shutil.copy('/repo/' + extra, tmp)
            p = subprocess.run(['/venv/bin/python', '-m', 'pytest', '-q', '-p', 'no:cacheprovider', '--timeout=900',
                                '--continue-on-collection-errors', '-x', '--junitxml', os.path.join(tmp, 'j.xml')],
                               cwd=tmp, env=dict(os.environ, PYTHONPATH=tmp), stdout=subprocess.PIPE, stderr=subprocess.STDOUT)
            import xml.etree.ElementTree as ET
            base = set(json.load(open('/root/.vp/BASELINE.json'))['stable_pass'])
            passed = set()
            for tc in ET.parse(os.path.join(tmp, 'j.xml')).getroot().iter('testcase'):
                if not any(c.tag in ('failure', 'error', 'skipped') for c in tc):
                    passed.add('%s::%s' % (tc.get('classname'), tc.get('name')))
            res['suite_missing'] = sorted(base - passed)[:3]
        env = dict(os.environ, VERIF_REPO=tmp, VERIF_SELFTEST='1')
        p = subprocess.run([os.path.join(ROOT, 'check'), prop, '--tier', 'quick'], env=env, cwd=ROOT,
                           stdout=subprocess.PIPE, stderr=subprocess.STDOUT, timeout=1800)
        out = p.stdout.decode(errors='replace')
        viol = [l for l in out.splitlines() if l.startswith('VIOLATION')]
        mech = [l.strip() for l in out.splitlines() if l.strip().startswith('mechanism:')]
        status = 'KILLED' if p.returncode == 1 and viol else 'SURVIVED(exit %d)' % p.returncode
        if suite and res.get('suite_missing'):
            status += ' [suite also fails: %s]' % res['suite_missing']
        return mid, prop, status, '; '.join(mech[:2]) or out[-300:].replace('\n', ' | ')
    finally:
        shutil.rmtree(tmp, ignore_errors=True)


def main():
    args = sys.argv[1:]
    jobs, suite = 4, False
    if '-j' in args:
        i = args.index('-j')
        jobs = int(args[i + 1])
        del args[i:i + 2]
    if '--suite' in args:
        suite = True
        args.remove('--suite')
    sel = [m for m in MUTANTS if not args or m[0] in args or m[1] in args]
    with ThreadPoolExecutor(jobs) as ex:
        results = list(ex.map(lambda m: one(m, suite), sel))
    bad = 0
    for mid, prop, status, detail in results:
        print('%-34s %-4s %-10s %s' % (mid, prop, status, detail[:160]))
        bad += not status.startswith('KILLED')
    print('%d mutants, %d not killed' % (len(results), bad))
    return 1 if bad else 0


if __name__ == '__main__':
    sys.exit(main())
