#!/venv/bin/python
"""Confirm a seeded property-breaking change and run the checks against it.

  seedcheck.py <property> <patch.diff> <demo.py> [--keep NAME] [--tier quick|thorough] [--also C01,C02]

Steps (all in a scratch git worktree of /repo outside /repo and /verif, removed afterwards):
 1. the patch applies to /repo's HEAD;
 2. the repository's pinned suite still passes every BASELINE stable test with the patch;
 3. the demonstration exits 0 on the unpatched tree and non-zero on the patched tree;
 4. the property's check (VERIF_REPO=<scratch>) reports a VIOLATION (exit 1) or not.
With --keep NAME the change is stored as /verif/seeded/NAME/{patch.diff, demo.py, meta.json}."""
import argparse
import json
import os
import shutil
import subprocess
import sys
import tempfile
import xml.etree.ElementTree as ET

ROOT = os.path.dirname(os.path.dirname(os.path.abspath(__file__)))


def sh(cmd, **kw):
    return subprocess.run(cmd, stdout=subprocess.PIPE, stderr=subprocess.STDOUT, **kw)


def suite(tree):
    j = os.path.join(tree, '.vseed-junit.xml')
    sh(['/venv/bin/python', '-m', 'pytest', '-q', '-p', 'no:cacheprovider', '--timeout=900', '--continue-on-collection-errors',
        '--junitxml', j], cwd=tree, env=dict(os.environ, PYTHONPATH=tree, PYTHONDONTWRITEBYTECODE='1'))
    base = set(json.load(open('/root/.vp/BASELINE.json'))['stable_pass'])
    passed = set()
    for tc in ET.parse(j).getroot().iter('testcase'):
        if not any(c.tag in ('failure', 'error', 'skipped') for c in tc):
            passed.add('%s::%s' % (tc.get('classname'), tc.get('name')))
    os.unlink(j)
    return sorted(base - passed)


def main():
    ap = argparse.ArgumentParser()
    ap.add_argument('prop')
    ap.add_argument('patch')
    ap.add_argument('demo')
    ap.add_argument('--keep')
    ap.add_argument('--tier', default='quick')
    ap.add_argument('--also', default='')
    ap.add_argument('--needs', default='')
    ap.add_argument('--skip-suite', action='store_true')
    a = ap.parse_args()
    tmp = tempfile.mkdtemp(prefix='vseed-', dir='/tmp')
    tree = os.path.join(tmp, 'wt-' + os.path.basename(tmp))      # unique name: git keys worktrees by basename
    res = {'property': a.prop, 'patch': os.path.abspath(a.patch)}
    try:
        p = sh(['git', '-C', '/repo', 'worktree', 'add', '--detach', tree, 'HEAD'])
        if p.returncode:
            print(p.stdout.decode())
            return 2
        demo_env = dict(os.environ, PYTHONPATH=tree, PYTHONDONTWRITEBYTECODE='1')
        d0 = sh(['/venv/bin/python', os.path.abspath(a.demo)], env=demo_env, cwd=tmp, timeout=600)
        res['demo_unpatched_exit'] = d0.returncode
        p = sh(['git', '-C', tree, 'apply', os.path.abspath(a.patch)])
        if p.returncode:
            p = sh(['git', '-C', tree, 'apply', '--3way', os.path.abspath(a.patch)])
        res['applies'] = p.returncode == 0
        if not res['applies']:
            res['apply_error'] = p.stdout.decode()[-400:]
        else:
            d1 = sh(['/venv/bin/python', os.path.abspath(a.demo)], env=demo_env, cwd=tmp, timeout=600)
            res['demo_patched_exit'] = d1.returncode
            res['demo_patched_tail'] = d1.stdout.decode(errors='replace')[-300:]
            if not a.skip_suite:
                res['suite_baseline_tests_not_passing'] = suite(tree)[:5]
            checks = {}
            for prop in [a.prop] + [x for x in a.also.split(',') if x]:
                c = sh([os.path.join(ROOT, 'check'), prop, '--tier', a.tier], cwd=ROOT,
                       env=dict(os.environ, VERIF_REPO=tree, VERIF_SELFTEST='1'), timeout=7200)
                out = c.stdout.decode(errors='replace')
                checks[prop] = {'exit': c.returncode,
                                'violations': [l for l in out.splitlines() if l.startswith('VIOLATION')][:3],
                                'mechanisms': [l.strip() for l in out.splitlines() if l.strip().startswith('mechanism:')][:4],
                                'tail': out.strip().splitlines()[-1:] if c.returncode != 1 else []}
            res['checks'] = checks
            res['detected_by'] = sorted(k for k, v in checks.items() if v['exit'] == 1 and v['violations'])
        ok = (res.get('applies') and res.get('demo_unpatched_exit') == 0 and res.get('demo_patched_exit', 0) != 0
              and not res.get('suite_baseline_tests_not_passing'))
        res['confirmed'] = bool(ok)
        print(json.dumps(res, indent=1))
        if a.keep and ok:
            dst = os.path.join(ROOT, 'seeded', a.keep)
            os.makedirs(dst, exist_ok=True)
            shutil.copy(a.patch, os.path.join(dst, 'patch.diff'))
            shutil.copy(a.demo, os.path.join(dst, 'demo.py'))
            meta = {'property': a.prop, 'needs_to_manifest': a.needs,
                    'confirmed': {'patch_applies_to_repo_head': True, 'existing_suite_unchanged': True,
                                  'demo_exit_unpatched': res['demo_unpatched_exit'], 'demo_exit_patched': res['demo_patched_exit']},
                    'ran': ['git worktree add <scratch> HEAD; git apply patch.diff', 'pinned pytest suite in the scratch tree (junit vs BASELINE.json)',
                            'PYTHONPATH=<scratch> /venv/bin/python demo.py (before and after the patch)',
                            'VERIF_REPO=<scratch> ./check %s --tier %s' % (a.prop, a.tier)],
                    'detected_by': res.get('detected_by', []), 'mechanisms': [m for c in ([a.prop] + sorted(res.get('checks', {}))) for m in res.get('checks', {}).get(c, {}).get('mechanisms', [])][:6]}
            with open(os.path.join(dst, 'meta.json'), 'w') as f:
                json.dump(meta, f, indent=1)
        return 0 if ok else 1
    finally:
        sh(['git', '-C', '/repo', 'worktree', 'remove', '--force', tree])
        shutil.rmtree(tmp, ignore_errors=True)


if __name__ == '__main__':
    sys.exit(main())
