#!/bin/bash
# re-validate every kept seeded change against the current checks: patch must still apply to /repo HEAD, the demo must still
# tell the two trees apart and the recorded checks must still report a violation.   usage: tools/reseed_all.sh [-j N] [names...]
cd /verif
J=5; if [ "$1" = "-j" ]; then J=$2; shift 2; fi
mkdir -p out/reseed
names=${@:-$(ls seeded)}
for n in $names; do echo $n; done | xargs -P $J -L 1 bash -c '
  n=$0; id=${n%-*}
  also=$(python3 -c "import json;m=json.load(open(\"seeded/$n/meta.json\"));print(\",\".join(c for c in m.get(\"detected_by\",[]) if c!=m[\"property\"]))")
  tools/seedcheck.py $id seeded/$n/patch.diff seeded/$n/demo.py --skip-suite ${also:+--also $also} > out/reseed/$n.json 2>out/reseed/$n.err
  python3 - $n <<PY
import json,sys
n=sys.argv[1]
try:
    d=json.load(open("out/reseed/%s.json" % n))
    print(n, "applies=%s demo=%s/%s detected=%s" % (d.get("applies"), d.get("demo_unpatched_exit"), d.get("demo_patched_exit"), d.get("detected_by")))
except Exception as e:
    print(n, "UNREADABLE", e)
PY'
