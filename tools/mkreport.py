#!/usr/bin/env python3
"""Generate the markdown tables for DESIGN.md section 7 (known findings, fixes, mutation kill matrix, seeded changes)."""
import json, os, sys, glob
ROOT = os.path.dirname(os.path.dirname(os.path.abspath(__file__)))
sys.path.insert(0, os.path.join(ROOT, 'tools'))
from mutants import MUTANTS
d = json.load(open(os.path.join(ROOT, 'known_findings.json')))
out = []
out.append('#### 7.4.1 Recorded findings (`known_findings.json`, %d entries)\n' % len(d['known']))
out.append('| slug | properties | input predicate | what is excused |')
out.append('|---|---|---|---|')
for e in d['known']:
    out.append('| %s | %s | %s | %s |' % (e['slug'], ' '.join(e['properties']), e['predicate'].replace('|', '/'), e['excuses'].replace('|', '/')))
out.append('\n#### 7.4.2 Repaired defects (`fix:` commits in /repo)\n')
for f in d['fixed']:
    out.append('* ' + f)
out.append('\n#### 7.5.1 Mutation kill matrix (tools/mutants.py, `tools/selftest.py`)\n')
byp = {}
for m in MUTANTS:
    byp.setdefault(m[1], []).append(m[0])
out.append('| check | mutants (all killed by that check\'s quick tier) |')
out.append('|---|---|')
for p in sorted(byp):
    out.append('| %s | %s |' % (p, ', '.join(byp[p])))
out.append('\n#### 7.5.2 Seeded changes written by independent sub-agents (`seeded/<id>/`)\n')
out.append('| seed | property | needs to manifest | detected by | first mechanisms reported |')
out.append('|---|---|---|---|---|')
for f in sorted(glob.glob(os.path.join(ROOT, 'seeded', '*', 'meta.json'))):
    m = json.load(open(f))
    name = os.path.basename(os.path.dirname(f))
    out.append('| %s | %s | %s | %s | %s |' % (name, m['property'], m['needs_to_manifest'].replace('|', '/'), ', '.join(m['detected_by']) or '**missed**',
                                            '; '.join(x.replace('mechanism: ', '') for x in m['mechanisms'][:2]).replace('|', '/')))
print('\n'.join(out))
