#!/usr/bin/env python3
"""Refresh the generated tables of DESIGN.md section 7 from known_findings.json, tools/mutants.py and seeded/*/meta.json."""
import os, re, subprocess
ROOT = os.path.dirname(os.path.dirname(os.path.abspath(__file__)))
rep = subprocess.run(['python3', os.path.join(ROOT, 'tools', 'mkreport.py')], stdout=subprocess.PIPE).stdout.decode()
i = rep.index('#### 7.5.1')
parts = {'report1': rep[:i].rstrip(), 'report2': rep[i:].rstrip()}
p = os.path.join(ROOT, 'DESIGN.md')
s = open(p).read()
for k, v in parts.items():
    s = re.sub(r'(<!-- BEGIN:%s[^>]*-->\n).*?(\n<!-- END:%s -->)' % (k, k), lambda m: m.group(1) + v + m.group(2), s, flags=re.S)
open(p, 'w').write(s)
print('DESIGN.md tables refreshed')
