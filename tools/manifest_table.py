C('C01', 'exploration', 'runtime monitoring: spec-codec reference model in lock-step with real encode()/decode()',
  'Held on every generated message: boundary sweep of all 16-bit fields, every list length 0..max+2, seeded random fields for all ~70 message kinds in both directions, all exception fc x code; thorough sweeps each single 16-bit field exhaustively. Exploration is the right level: the domain is finite per field but its product is not enumerable.',
  'Trusted: the spec codec vmon/spec/pdu.py written from MODBUS Application Protocol v1.1b3 and the adapter table vmon/adapters.py.', 'DESIGN.md 5/C01')
C('C02', 'exploration', 'runtime monitoring: call-history monitor (encode,encode,decode,encode,decode-into-same,...) plus icontract purity contracts on the real encode() methods',
  'Held on every generated call history for all message kinds (constructed-first and wire-first), with icontract snapshot/ensure contracts on every encode() evaluated throughout (and under the repository test-suite in the thorough tier). Histories on one object are the quantifier the tests lack.',
  'Trusted: adapter table (public fields), spec codec for size bounds. Purity is judged on public fields and on byte equality of repeated encodes, not on private bookkeeping attributes.', 'DESIGN.md 5/C02')
C('C19', 'exploration', 'runtime monitoring: independent layout reference model in lock-step with builder and decoder',
  'Held on every generated sequence of typed values (full ranges, extremes, subnormal/inf/NaN bit patterns) x 4 order combinations x raw/register transport; layout compared byte-for-byte with the reference, decoded values by bit pattern.',
  'Trusted: vmon/spec/payload.py (conventional register image) and the standard library float conversion.', 'DESIGN.md 5/C19')
